"""AST-level symbolic interpreter for the Python subset used by ural and the pure-Python
stdlib code below it.  Source is read from the live function objects on every run
(inspect / ast), so the encoding always reflects /repo's working tree."""
import ast
import builtins
import functools
import inspect
import operator
import os
import re
import sys
import types
import z3

from . import core
from .core import Unsupported, PathCut, EngineSignal
from . import values as V
from .values import (SStr, SBytes, SByteArray, SInt, SymDict, SymSet, EagerGen, br, mk, elems,
                     kind_of, has_sym, v_eq, v_lt, truth, z_and, z_or, z_not)
from . import rx as RX
from . import models as M

MAX_DEPTH = 48           # interpreted call depth modelled as RecursionError (no legitimate chain is that deep)
BRK = ("break",)
CNT = ("continue",)

_SRC_INDEX = {}


class FuncInfo(object):
    __slots__ = ("node", "is_gen", "cls_name", "filename", "lineno", "name", "src_sha")


def _has_yield(node):
    todo = list(node.body) if isinstance(node.body, list) else [node.body]
    while todo:
        n = todo.pop()
        if isinstance(n, (ast.Yield, ast.YieldFrom)):
            return True
        if isinstance(n, (ast.FunctionDef, ast.AsyncFunctionDef, ast.Lambda, ast.ClassDef)):
            continue
        todo.extend(ast.iter_child_nodes(n))
    return False


def _index_file(filename):
    idx = _SRC_INDEX.get(filename)
    if idx is not None:
        return idx
    with open(filename, "rb") as f:
        src = f.read()
    tree = ast.parse(src, filename)
    idx = {}

    def walk(node, cls):
        for ch in ast.iter_child_nodes(node):
            if isinstance(ch, ast.ClassDef):
                walk(ch, ch.name)
            elif isinstance(ch, (ast.FunctionDef, ast.AsyncFunctionDef)):
                ln = min([ch.lineno] + [d.lineno for d in ch.decorator_list])
                idx.setdefault((ln, ch.name), []).append((ch, cls))
                walk(ch, cls)
            elif isinstance(ch, ast.Lambda):
                idx.setdefault((ch.lineno, "<lambda>"), []).append((ch, cls))
                walk(ch, cls)
            else:
                walk(ch, cls)
    walk(tree, None)
    _SRC_INDEX[filename] = idx
    return idx


_INFO_CACHE = {}
ENCODED = {}   # (module, qualname) -> (file, line, sha1) : reported in evidence


def func_info(func):
    code = func.__code__
    info = _INFO_CACHE.get(code)
    if info is not None:
        return info
    filename = code.co_filename
    if filename.startswith("<frozen ") and filename.endswith(">"):
        m_ = sys.modules.get(filename[8:-1])
        f_ = getattr(m_, "__file__", None) or getattr(getattr(m_, "__spec__", None), "origin", None)
        if f_ and f_.endswith(".py"):
            filename = f_
        else:
            import sysconfig
            cand = os.path.join(sysconfig.get_paths()["stdlib"], filename[8:-1].replace(".", "/") + ".py")
            if os.path.exists(cand):
                filename = cand
    try:
        idx = _index_file(filename)
    except (OSError, SyntaxError) as e:
        raise Unsupported("no source for %s: %s" % (getattr(func, "__qualname__", func), e))
    cands = idx.get((code.co_firstlineno, code.co_name))
    if not cands:
        raise Unsupported("cannot locate source of %s" % getattr(func, "__qualname__", func))
    if len(cands) > 1:
        want = code.co_code
        sel = []
        for nd, cls in cands:
            try:
                c = compile(ast.Expression(nd), filename, "eval")
                lam = [k for k in c.co_consts if isinstance(k, types.CodeType)]
                if lam and lam[0].co_code == want and lam[0].co_names == code.co_names:
                    sel.append((nd, cls))
            except Exception:
                pass
        if len(sel) < 1:
            raise Unsupported("ambiguous lambda at %s:%d" % (filename, code.co_firstlineno))
        cands = sel
    node, cls = cands[0]
    info = FuncInfo()
    info.node = node
    info.is_gen = _has_yield(node)
    info.cls_name = cls
    info.filename = filename
    info.lineno = code.co_firstlineno
    info.name = getattr(func, "__qualname__", code.co_name)
    import hashlib
    info.src_sha = hashlib.sha1(ast.dump(node).encode()).hexdigest()[:12]
    _INFO_CACHE[code] = info
    ENCODED[(getattr(func, "__module__", "?"), info.name)] = (filename, info.lineno, info.src_sha)
    return info


class Env(object):
    __slots__ = ("vars", "parent", "globals", "cls_name", "yields", "globals_decl")

    def __init__(self, parent, globs, cls_name):
        self.vars = {}
        self.parent = parent
        self.globals = globs
        self.cls_name = cls_name
        self.yields = None
        self.globals_decl = None


class Closure(object):
    """Function value created by interpreted code (def / lambda)."""

    def __init__(self, interp, node, env, defaults, kwdefaults, is_gen, name):
        self.interp = interp
        self.node = node
        self.env = env
        self.defaults = defaults
        self.kwdefaults = kwdefaults
        self.is_gen = is_gen
        self.__name__ = name

    def __call__(self, *a, **k):
        return self.interp.call(self, a, k)


class BoundModel(object):
    __slots__ = ("obj", "name")

    def __init__(self, obj, name):
        self.obj = obj
        self.name = name


_A_GEN = (x for x in ())
_BUILTINS = builtins.__dict__


class Interp(object):
    def __init__(self):
        self.trace = None
        self.loop_cap = 100000      # iterations of one while loop; beyond: Unsupported, or loop_cap_exc when set
        self.loop_cap_exc = None

    # ------------------------------------------------------------------
    # calls
    def call(self, f, args=(), kwargs=None):
        kwargs = kwargs or {}
        if isinstance(f, Closure):
            return self._run(f.node, f.env.globals, f.env, f.env.cls_name, f.defaults, f.kwdefaults,
                             f.is_gen, args, kwargs, f.__name__)
        if isinstance(f, BoundModel):
            return M.method(self, f.obj, f.name, args, kwargs)
        if isinstance(f, functools.partial):
            kw = dict(f.keywords)
            kw.update(kwargs)
            return self.call(f.func, tuple(f.args) + tuple(args), kw)
        if isinstance(f, types.MethodType):
            return self.call(f.__func__, (f.__self__,) + tuple(args), kwargs)
        m = M.FUNC_MODELS.get(f) if _hashable(f) else None
        if m is not None:
            r = m(self, args, kwargs)
            if r is not M.NATIVE:
                return r
            return f(*args, **kwargs)
        if isinstance(f, types.FunctionType):
            if not (has_sym(args) or has_sym(kwargs)):
                return f(*args, **kwargs)
            return self.call_pyfunc(f, args, kwargs)
        if isinstance(f, type):
            return self.call_class(f, args, kwargs)
        if isinstance(f, (types.BuiltinFunctionType, types.BuiltinMethodType, types.MethodWrapperType,
                          types.MethodDescriptorType, types.WrapperDescriptorType)):
            slf = getattr(f, "__self__", None)
            if not (has_sym(args) or has_sym(kwargs)) and not (slf is not None and not isinstance(slf, types.ModuleType) and has_sym(slf)):
                return f(*args, **kwargs)
            if slf is not None and not isinstance(slf, types.ModuleType):
                return M.method(self, slf, f.__name__, args, kwargs)
            if isinstance(f, (types.MethodDescriptorType, types.WrapperDescriptorType)) and args:
                return M.method(self, args[0], f.__name__, args[1:], kwargs)
            raise Unsupported("builtin %s on symbolic arguments" % getattr(f, "__name__", f))
        w = getattr(f, "__wrapped__", None)
        if w is not None and type(f).__name__ == "_lru_cache_wrapper":
            if not (has_sym(args) or has_sym(kwargs)):
                return f(*args, **kwargs)
            return self.call(w, args, kwargs)
        if not (has_sym(args) or has_sym(kwargs)) and not has_sym(f):
            return f(*args, **kwargs)
        c = _class_attr(type(f), "__call__")
        if isinstance(c, types.FunctionType):
            return self.call_pyfunc(c, (f,) + tuple(args), kwargs)
        raise Unsupported("call of %r with symbolic arguments" % (f,))

    def call_class(self, cls, args, kwargs):
        sym = has_sym(args) or has_sym(kwargs)
        if issubclass(cls, BaseException):
            return cls(*args, **kwargs)
        if issubclass(cls, tuple) and hasattr(cls, "_fields"):
            return cls(*args, **kwargs)
        init = _class_attr(cls, "__init__")
        new = _class_attr(cls, "__new__")
        if isinstance(init, types.FunctionType) and new is object.__new__:
            obj = cls.__new__(cls)
            core.CUR.created[id(obj)] = obj
            self.call_pyfunc(init, (obj,) + tuple(args), kwargs)
            return obj
        if not sym:
            return cls(*args, **kwargs)
        raise Unsupported("constructor %s with symbolic arguments" % cls.__name__)

    def call_pyfunc(self, func, args, kwargs):
        info = func_info(func)
        env = None
        if func.__closure__:
            env = Env(None, func.__globals__, info.cls_name)
            for nm, cell in zip(func.__code__.co_freevars, func.__closure__):
                try:
                    env.vars[nm] = cell.cell_contents
                except ValueError:
                    pass
        return self._run(info.node, func.__globals__, env, info.cls_name, func.__defaults__ or (),
                         func.__kwdefaults__ or {}, info.is_gen, args, kwargs, info.name)

    def _run(self, node, globs, parent, cls_name, defaults, kwdefaults, is_gen, args, kwargs, name):
        st = core.CUR
        st.depth += 1
        if st.depth > MAX_DEPTH:
            st.depth -= 1
            raise RecursionError("maximum recursion depth exceeded (modelled at %d)" % MAX_DEPTH)
        try:
            env = Env(parent, globs, cls_name)
            self._bind(node.args, env, defaults, kwdefaults, args, kwargs, name)
            if is_gen:
                env.yields = []
            if isinstance(node, ast.Lambda):
                return self.ev(node.body, env)
            sig = self.block(node.body, env)
            if is_gen:
                return EagerGen(env.yields)
            if sig is not None and sig[0] == "return":
                return sig[1]
            return None
        finally:
            st.depth -= 1

    def _bind(self, a, env, defaults, kwdefaults, args, kwargs, name):
        pos = [x.arg for x in a.posonlyargs] + [x.arg for x in a.args]
        v = env.vars
        n = len(pos)
        args = tuple(args)
        if len(args) > n:
            if a.vararg is None:
                raise TypeError("%s() takes %d positional arguments but %d were given" % (name, n, len(args)))
            v[a.vararg.arg] = args[n:]
        elif a.vararg is not None:
            v[a.vararg.arg] = ()
        for nm, val in zip(pos, args):
            v[nm] = val
        kw = dict(kwargs)
        nd = len(defaults)
        for i in range(len(args), n):
            nm = pos[i]
            if nm in kw:
                v[nm] = kw.pop(nm)
            elif i >= n - nd:
                v[nm] = defaults[i - (n - nd)]
            else:
                raise TypeError("%s() missing required argument %r" % (name, nm))
        for nm in pos[:len(args)]:
            if nm in kw:
                raise TypeError("%s() got multiple values for argument %r" % (name, nm))
        for ka in a.kwonlyargs:
            if ka.arg in kw:
                v[ka.arg] = kw.pop(ka.arg)
            elif ka.arg in kwdefaults:
                v[ka.arg] = kwdefaults[ka.arg]
            else:
                raise TypeError("%s() missing keyword-only argument %r" % (name, ka.arg))
        if a.kwarg is not None:
            v[a.kwarg.arg] = kw
        elif kw:
            raise TypeError("%s() got an unexpected keyword argument %r" % (name, sorted(kw)[0]))

    # ------------------------------------------------------------------
    # statements
    def block(self, stmts, env):
        for s in stmts:
            sig = self.stmt(s, env)
            if sig is not None:
                return sig
        return None

    def stmt(self, s, env):
        t = type(s)
        if t is ast.Expr:
            self.ev(s.value, env)
            return None
        if t is ast.Assign:
            val = self.ev(s.value, env)
            for tg in s.targets:
                self.assign(tg, val, env)
            return None
        if t is ast.If:
            if self.cond(self.ev(s.test, env)):
                return self.block(s.body, env)
            return self.block(s.orelse, env)
        if t is ast.Return:
            return ("return", None if s.value is None else self.ev(s.value, env))
        if t is ast.For:
            it = self.iterate(self.ev(s.iter, env))
            broke = False
            for item in it:
                self.assign(s.target, item, env)
                sig = self.block(s.body, env)
                if sig is not None:
                    if sig is BRK:
                        broke = True
                        break
                    if sig is CNT:
                        continue
                    return sig
            if not broke and s.orelse:
                return self.block(s.orelse, env)
            return None
        if t is ast.While:
            broke = False
            n = 0
            while self.cond(self.ev(s.test, env)):
                n += 1
                if n > self.loop_cap:
                    if self.loop_cap_exc is not None:
                        raise self.loop_cap_exc("while loop exceeds %d iterations" % self.loop_cap)
                    raise Unsupported("while loop exceeds %d iterations" % self.loop_cap)
                sig = self.block(s.body, env)
                if sig is not None:
                    if sig is BRK:
                        broke = True
                        break
                    if sig is CNT:
                        continue
                    return sig
            if not broke and s.orelse:
                return self.block(s.orelse, env)
            return None
        if t is ast.AugAssign:
            cur = self.ev(_load(s.target), env)
            rhs = self.ev(s.value, env)
            if isinstance(cur, list) and isinstance(s.op, ast.Add):
                cur.extend(self.iterate(rhs))
                return None
            if isinstance(cur, SByteArray) and isinstance(s.op, ast.Add):
                cur.ch.extend(elems(rhs))
                return None
            self.assign(s.target, self.binop(s.op, cur, rhs), env)
            return None
        if t is ast.Break:
            return BRK
        if t is ast.Continue:
            return CNT
        if t is ast.Pass:
            return None
        if t is ast.Raise:
            if s.exc is None:
                raise Unsupported("bare raise")
            exc = self.ev(s.exc, env)
            if isinstance(exc, type):
                exc = exc()
            raise exc
        if t is ast.Try:
            return self.try_(s, env)
        if t is ast.Assert:
            if not self.cond(self.ev(s.test, env)):
                raise AssertionError(None if s.msg is None else self.ev(s.msg, env))
            return None
        if t is ast.FunctionDef:
            env.vars[s.name] = self.make_closure(s, env, s.name)
            return None
        if t is ast.Import:
            for al in s.names:
                mod = __import__(al.name)
                if al.asname:
                    for part in al.name.split(".")[1:]:
                        mod = getattr(mod, part)
                    env.vars[al.asname] = mod
                else:
                    env.vars[al.name.split(".")[0]] = mod
            return None
        if t is ast.ImportFrom:
            mod = __import__(s.module, fromlist=[a.name for a in s.names], level=s.level)
            for al in s.names:
                env.vars[al.asname or al.name] = getattr(mod, al.name)
            return None
        if t is ast.AnnAssign:
            if s.value is not None:
                self.assign(s.target, self.ev(s.value, env), env)
            return None
        if t is ast.Global:
            if env.globals_decl is None:
                env.globals_decl = set()
            env.globals_decl.update(s.names)
            return None
        if t is ast.Delete:
            for tg in s.targets:
                if isinstance(tg, ast.Name):
                    del env.vars[tg.id]
                elif isinstance(tg, ast.Subscript):
                    o = self.ev(tg.value, env)
                    k = self.ev(tg.slice, env)
                    if type(o) is dict:
                        o = _shadow_for_write(o)
                    if isinstance(o, SymDict):
                        o.s_pop(k)
                    elif has_sym(k):
                        raise Unsupported("del with symbolic key")
                    else:
                        del o[k]
                else:
                    raise Unsupported("del target")
            return None
        raise Unsupported("statement %s" % t.__name__)

    def try_(self, s, env):
        try:
            try:
                sig = self.block(s.body, env)
            except EngineSignal:
                raise
            except BaseException as e:
                if isinstance(e, (KeyboardInterrupt, SystemExit, MemoryError)):
                    raise
                if isinstance(e, z3.Z3Exception):
                    raise
                for h in s.handlers:
                    if h.type is None:
                        match = True
                    else:
                        ht = self.ev(h.type, env)
                        match = isinstance(e, ht)
                    if match:
                        if h.name:
                            env.vars[h.name] = e
                        return self.block(h.body, env)
                raise
            else:
                if sig is None and s.orelse:
                    sig = self.block(s.orelse, env)
                return sig
        finally:
            if s.finalbody:
                fsig = self.block(s.finalbody, env)
                if fsig is not None:
                    return fsig

    def assign(self, tg, val, env):
        t = type(tg)
        if t is ast.Name:
            if env.globals_decl and tg.id in env.globals_decl:
                if has_sym(val):
                    raise Unsupported("assignment of a symbolic value to global %s" % tg.id)
                env.globals[tg.id] = val
            else:
                env.vars[tg.id] = val
            return
        if t is ast.Tuple or t is ast.List:
            items = self.iterate(val)
            star = [i for i, e in enumerate(tg.elts) if isinstance(e, ast.Starred)]
            if star:
                i = star[0]
                after = len(tg.elts) - i - 1
                if len(items) < len(tg.elts) - 1:
                    raise ValueError("not enough values to unpack")
                for e, v in zip(tg.elts[:i], items[:i]):
                    self.assign(e, v, env)
                self.assign(tg.elts[i].value, list(items[i:len(items) - after]), env)
                for e, v in zip(tg.elts[i + 1:], items[len(items) - after:]):
                    self.assign(e, v, env)
                return
            if len(items) != len(tg.elts):
                if len(items) > len(tg.elts):
                    raise ValueError("too many values to unpack (expected %d)" % len(tg.elts))
                raise ValueError("not enough values to unpack (expected %d, got %d)" % (len(tg.elts), len(items)))
            for e, v in zip(tg.elts, items):
                self.assign(e, v, env)
            return
        if t is ast.Attribute:
            obj = self.ev(tg.value, env)
            name = _mangle(tg.attr, env.cls_name)
            if isinstance(obj, (types.ModuleType, type)):
                raise Unsupported("assignment to module/class attribute %s" % name)
            setattr(obj, name, val)
            return
        if t is ast.Subscript:
            obj = self.ev(tg.value, env)
            key = self.ev(tg.slice, env)
            self.setitem(obj, key, val)
            return
        raise Unsupported("assignment target %s" % t.__name__)

    def setitem(self, obj, key, val):
        if type(obj) is dict:
            obj = _shadow_for_write(obj)
        if isinstance(obj, SymDict):
            obj.s_set(key, val)
            return
        if isinstance(obj, SByteArray):
            raise Unsupported("bytearray item assignment")
        si = _class_attr(type(obj), "__setitem__")
        if isinstance(si, types.FunctionType) and (has_sym(obj) or has_sym(val) or has_sym(key)):
            self.call_pyfunc(si, (obj, key, val), {})
            return
        if has_sym(key):
            raise Unsupported("item assignment with symbolic key on %s" % type(obj).__name__)
        obj[key] = val

    # ------------------------------------------------------------------
    def cond(self, v):
        v = _sh(v)
        t = truth(v) if not isinstance(v, bool) else v
        if t is True or t is False:
            return t
        return br(t)

    def iterate(self, v):
        """materialise an iterable as a list"""
        v = _sh(v)
        if isinstance(v, (list, tuple)):
            return list(v)
        if isinstance(v, EagerGen):
            return v.rest()
        if isinstance(v, (SStr, SBytes)):
            if v.kind == "bytes":
                return [c if isinstance(c, int) else SInt(z3.ZeroExt(core.INT_BITS - 8, c)) for c in v.ch]
            return [mk("str", [c]) for c in v.ch]
        if isinstance(v, SymDict):
            return v.s_keys()
        if isinstance(v, SymSet):
            return list(v.items)
        if isinstance(v, SByteArray):
            raise Unsupported("iteration over symbolic bytearray")
        if isinstance(v, (SInt, z3.ExprRef)):
            raise TypeError("object is not iterable")
        it = _class_attr(type(v), "__iter__")
        if isinstance(it, types.FunctionType) and has_sym(v):
            return self.iterate(self.call_pyfunc(it, (v,), {}))
        return list(v)

    # ------------------------------------------------------------------
    # expressions
    def ev(self, e, env):
        t = type(e)
        if t is ast.Constant:
            return e.value
        if t is ast.Name:
            return self.lookup(e.id, env)
        if t is ast.Call:
            return self.ev_call(e, env)
        if t is ast.Attribute:
            obj = self.ev(e.value, env)
            return self.getattr_(obj, _mangle(e.attr, env.cls_name))
        if t is ast.Compare:
            left = self.ev(e.left, env)
            res = True
            for op, rn in zip(e.ops, e.comparators):
                right = self.ev(rn, env)
                r = self.compare(op, left, right)
                if len(e.ops) == 1:
                    return r
                # chained: short-circuit
                if not self.cond(r):
                    return False
                left = right
            return res
        if t is ast.BoolOp:
            if isinstance(e.op, ast.And):
                v = True
                for sub in e.values:
                    v = self.ev(sub, env)
                    if not self.cond(v):
                        return v if not isinstance(v, z3.BoolRef) else False
                return v if not isinstance(v, z3.BoolRef) else True
            v = False
            for sub in e.values:
                v = self.ev(sub, env)
                if self.cond(v):
                    return v if not isinstance(v, z3.BoolRef) else True
            return v if not isinstance(v, z3.BoolRef) else False
        if t is ast.UnaryOp:
            v = self.ev(e.operand, env)
            if isinstance(e.op, ast.Not):
                tv = truth(v) if not isinstance(v, bool) else v
                return z_not(tv)
            if isinstance(e.op, ast.USub):
                if isinstance(v, SInt):
                    raise Unsupported("negation of symbolic int")
                return -v
            if isinstance(e.op, ast.UAdd):
                return +v
            raise Unsupported("unary op")
        if t is ast.BinOp:
            return self.binop(e.op, self.ev(e.left, env), self.ev(e.right, env))
        if t is ast.Subscript:
            obj = self.ev(e.value, env)
            key = self.ev(e.slice, env)
            return self.getitem(obj, key)
        if t is ast.Slice:
            lo = None if e.lower is None else self.ev(e.lower, env)
            hi = None if e.upper is None else self.ev(e.upper, env)
            stp = None if e.step is None else self.ev(e.step, env)
            for x in (lo, hi, stp):
                if isinstance(x, SInt):
                    raise Unsupported("symbolic slice bound")
            return slice(lo, hi, stp)
        if t is ast.IfExp:
            if self.cond(self.ev(e.test, env)):
                return self.ev(e.body, env)
            return self.ev(e.orelse, env)
        if t is ast.Tuple:
            return tuple(self.ev_elts(e.elts, env))
        if t is ast.List:
            return self.ev_elts(e.elts, env)
        if t is ast.Dict:
            d = SymDict()
            for k, v in zip(e.keys, e.values):
                if k is None:
                    d.s_update(self.ev(v, env))
                else:
                    d.s_set(self.ev(k, env), self.ev(v, env))
            return d
        if t is ast.Set:
            items = self.ev_elts(e.elts, env)
            if has_sym(items):
                return SymSet(items)
            return set(items)
        if t is ast.ListComp:
            out = []
            self.comp(e.generators, 0, env, lambda en: out.append(self.ev(e.elt, en)))
            return out
        if t is ast.GeneratorExp:
            out = []
            self.comp(e.generators, 0, env, lambda en: out.append(self.ev(e.elt, en)))
            return EagerGen(out)
        if t is ast.SetComp:
            out = []
            self.comp(e.generators, 0, env, lambda en: out.append(self.ev(e.elt, en)))
            if has_sym(out):
                return SymSet(out)
            return set(out)
        if t is ast.DictComp:
            d = SymDict()
            self.comp(e.generators, 0, env, lambda en: d.s_set(self.ev(e.key, en), self.ev(e.value, en)))
            return d
        if t is ast.Lambda:
            return self.make_closure(e, env, "<lambda>")
        if t is ast.JoinedStr:
            parts = []
            for v in e.values:
                if isinstance(v, ast.Constant):
                    parts.extend(elems(v.value))
                else:
                    x = self.ev(v.value, env)
                    if v.conversion == 114:  # !r
                        x = M.m_repr(self, (x,), {})
                        if x is M.NATIVE:
                            x = repr(self.ev(v.value, env))
                    elif v.format_spec is not None:
                        raise Unsupported("f-string format spec")
                    parts.extend(elems(M.to_str(self, x)))
            return mk("str", parts)
        if t is ast.Yield:
            fe = env
            while fe is not None and fe.yields is None:
                fe = fe.parent
            if fe is None:
                raise Unsupported("yield outside generator")
            fe.yields.append(None if e.value is None else self.ev(e.value, env))
            return None
        if t is ast.YieldFrom:
            fe = env
            while fe is not None and fe.yields is None:
                fe = fe.parent
            fe.yields.extend(self.iterate(self.ev(e.value, env)))
            return None
        if t is ast.Starred:
            raise Unsupported("starred expression")
        if t is ast.NamedExpr:
            v = self.ev(e.value, env)
            self.assign(e.target, v, env)
            return v
        raise Unsupported("expression %s" % t.__name__)

    def ev_elts(self, elts, env):
        out = []
        for x in elts:
            if isinstance(x, ast.Starred):
                out.extend(self.iterate(self.ev(x.value, env)))
            else:
                out.append(self.ev(x, env))
        return out

    def comp(self, gens, i, env, emit):
        if i == len(gens):
            emit(env)
            return
        g = gens[i]
        it = self.iterate(self.ev(g.iter, env))
        for item in it:
            en = Env(env, env.globals, env.cls_name)
            self.assign(g.target, item, en)
            ok = True
            for c in g.ifs:
                if not self.cond(self.ev(c, en)):
                    ok = False
                    break
            if ok:
                self.comp(gens, i + 1, en, emit)

    def make_closure(self, node, env, name):
        a = node.args
        defaults = tuple(self.ev(d, env) for d in a.defaults)
        kwdefaults = {k.arg: self.ev(d, env) for k, d in zip(a.kwonlyargs, a.kw_defaults) if d is not None}
        is_gen = not isinstance(node, ast.Lambda) and _has_yield(node)
        return Closure(self, node, env, defaults, kwdefaults, is_gen, name)

    def lookup(self, name, env):
        e = env
        while e is not None:
            if name in e.vars:
                return e.vars[name]
            e = e.parent
        g = env.globals
        if name in g:
            return g[name]
        if name in _BUILTINS:
            return _BUILTINS[name]
        raise NameError("name %r is not defined" % name)

    def ev_call(self, e, env):
        f = self.ev(e.func, env)
        args = []
        for a in e.args:
            if isinstance(a, ast.Starred):
                args.extend(self.iterate(self.ev(a.value, env)))
            else:
                args.append(self.ev(a, env))
        kwargs = {}
        for k in e.keywords:
            if k.arg is None:
                d = self.ev(k.value, env)
                if isinstance(d, SymDict):
                    for kk, vv in d.s_items():
                        kwargs[kk] = vv
                else:
                    kwargs.update(d)
            else:
                kwargs[k.arg] = self.ev(k.value, env)
        return self.call(f, args, kwargs)

    # ------------------------------------------------------------------
    def getattr_(self, obj, name):
        obj = _sh(obj)
        if type(obj) is dict and name in ("update", "setdefault", "pop", "clear", "popitem", "__setitem__", "__delitem__"):
            obj = _shadow_for_write(obj)
        if isinstance(obj, (SStr, SBytes, SByteArray, SymDict, SymSet, EagerGen)):
            if isinstance(obj, SymDict) and name in ("pairs", "nsym"):
                raise AttributeError(name)
            return BoundModel(obj, name)
        if isinstance(obj, (SInt, z3.ExprRef)):
            raise Unsupported("attribute %s of symbolic scalar" % name)
        if isinstance(obj, (str, bytes, int, float, bool, type(None), types.ModuleType, type, RX.SMatch)):
            return getattr(obj, name)
        cls = type(obj)
        d = _class_attr(cls, name)
        if d is not None and has_sym(obj):
            if isinstance(d, property) and isinstance(d.fget, types.FunctionType):
                return self.call_pyfunc(d.fget, (obj,), {})
            if isinstance(d, types.FunctionType):
                idict = getattr(obj, "__dict__", None)
                if idict is None or name not in idict:
                    return types.MethodType(d, obj)
        return getattr(obj, name)

    def getitem(self, obj, key):
        obj = _sh(obj)
        if isinstance(obj, (SStr, SBytes, SByteArray)):
            if isinstance(key, SInt):
                raise Unsupported("symbolic index")
            if isinstance(key, slice):
                return mk(obj.kind, list(obj.ch)[key])
            c = obj.ch[key]
            if obj.kind == "bytes":
                return c if isinstance(c, int) else SInt(z3.ZeroExt(core.INT_BITS - 8, c))
            return mk("str", [c])
        if isinstance(obj, SymDict):
            return obj.s_getitem(key)
        if isinstance(obj, RX.SMatch):
            return obj[key]
        gi = _class_attr(type(obj), "__getitem__")
        if isinstance(gi, types.FunctionType) and (has_sym(obj) or has_sym(key)):
            return self.call_pyfunc(gi, (obj, key), {})
        if has_sym(key):
            if isinstance(obj, dict):
                return V.lookup_concrete(obj, key, None, missing_raises=True)
            raise Unsupported("subscript with symbolic key on %s" % type(obj).__name__)
        return obj[key]

    # ------------------------------------------------------------------
    def _user_eq(self, a, b):
        """a == b through a Python-level __eq__ of a's class (records holding symbolic fields)"""
        if isinstance(a, (str, bytes, int, float, bool, type(None), list, tuple, dict, set, frozenset)) or isinstance(a, V.SYM_TYPES) \
                or isinstance(a, (SymDict, SymSet, EagerGen, RX.SMatch)):
            return None
        eq = _class_attr(type(a), "__eq__")
        if isinstance(eq, types.FunctionType) and (has_sym(a) or has_sym(b) or _fields_sym(a) or _fields_sym(b)):
            r = self.call_pyfunc(eq, (a, b), {})
            if r is NotImplemented:
                return None
            return truth(r) if not isinstance(r, bool) else r
        return None

    def compare(self, op, a, b):
        t = type(op)
        if t is ast.Eq or t is ast.NotEq:
            r = self._user_eq(a, b)
            if r is None:
                r = self._user_eq(b, a)
            if r is None:
                r = v_eq(a, b)
            return r if t is ast.Eq else z_not(r)
        if t is ast.Is:
            return a is b
        if t is ast.IsNot:
            return a is not b
        if t is ast.In:
            return self.contains(b, a)
        if t is ast.NotIn:
            return z_not(self.contains(b, a))
        if t is ast.Lt:
            return v_lt(a, b)
        if t is ast.Gt:
            return v_lt(b, a)
        if t is ast.LtE:
            return z_not(v_lt(b, a))
        if t is ast.GtE:
            return z_not(v_lt(a, b))
        raise Unsupported("comparison")

    def contains(self, coll, item):
        coll = _sh(coll)
        kc = kind_of(coll)
        if kc is not None:
            ki = kind_of(item)
            if ki is None:
                if kc == "bytes" and isinstance(item, (int, SInt)):
                    iv = item if isinstance(item, int) else z3.Extract(7, 0, item.e)
                    return z_or([V.ceq(c, iv) for c in elems(coll)])
                raise TypeError("'in <string>' requires string as left operand")
            if ki != kc:
                raise TypeError("'in <string>' requires string as left operand")
            if not has_sym(coll) and not has_sym(item):
                return item in coll
            return V.contains(elems(coll), elems(item))
        if isinstance(coll, SymDict):
            return coll.s_contains(item)
        if isinstance(coll, SymSet):
            return coll.s_contains(item)
        if isinstance(coll, EagerGen):
            coll = coll.rest()
        if not has_sym(item) and not has_sym(coll):
            return item in coll
        if isinstance(coll, (dict, set, frozenset)) and has_sym(item):
            if kind_of(item) is None and not isinstance(item, tuple):
                return z_or([v_eq(item, c) for c in coll])
            return V.member_of_concrete(item, coll)
        if isinstance(coll, (list, tuple)):
            if kind_of(item) is not None and has_sym(item) and not has_sym(coll) and all(isinstance(c, (str, bytes)) for c in coll):
                return V.member_of_concrete(item, coll)
            return z_or([v_eq(item, c) for c in coll])
        ct = _class_attr(type(coll), "__contains__")
        if isinstance(ct, types.FunctionType):
            return self.call_pyfunc(ct, (coll, item), {})
        raise Unsupported("'in' on %s" % type(coll).__name__)

    def binop(self, op, a, b):
        t = type(op)
        if not (has_sym(a) or has_sym(b)):
            return _NATIVE_BINOPS[t](a, b)
        ka, kb = kind_of(a), kind_of(b)
        if t is ast.Add:
            if ka is not None and kb is not None:
                if ka != kb:
                    raise TypeError("can only concatenate %s to %s" % (ka, kb))
                r = mk(ka, elems(a) + elems(b))
                if isinstance(a, (SByteArray, bytearray)):
                    return SByteArray(elems(r))
                return r
            if isinstance(a, list) and isinstance(b, list):
                return a + b
            if isinstance(a, tuple) and isinstance(b, tuple):
                return a + b
            if isinstance(a, (SInt, int)) and isinstance(b, (SInt, int)):
                return SInt(V.ival(a) + V.ival(b))
            if ka is not None or kb is not None:
                raise TypeError("can only concatenate str (not %r) to str" % type(b).__name__)
        if t is ast.Sub and isinstance(a, (SInt, int)) and isinstance(b, (SInt, int)):
            return SInt(V.ival(a) - V.ival(b))
        if t is ast.Mult:
            if isinstance(a, (SInt, int)) and isinstance(b, (SInt, int)):
                return SInt(V.ival(a) * V.ival(b))
            if ka is not None and isinstance(b, int):
                return mk(ka, elems(a) * b)
            if kb is not None and isinstance(a, int):
                return mk(kb, elems(b) * a)
        if t is ast.Mod and ka == "str":
            return M.str_format(self, a, b)
        raise Unsupported("binary %s on %s, %s" % (t.__name__, type(a).__name__, type(b).__name__))


_NATIVE_BINOPS = {
    ast.Add: operator.add, ast.Sub: operator.sub, ast.Mult: operator.mul, ast.Div: operator.truediv,
    ast.FloorDiv: operator.floordiv, ast.Mod: operator.mod, ast.Pow: operator.pow,
    ast.BitAnd: operator.and_, ast.BitOr: operator.or_, ast.BitXor: operator.xor,
    ast.LShift: operator.lshift, ast.RShift: operator.rshift,
}


def _sh(obj):
    """per-path shadow of a plain dict that interpreted code has written to (module-level caches
    etc. are never mutated natively: writes go to a path-local SymDict copy)"""
    if type(obj) is dict:
        sh = core.CUR.shadow
        if sh:
            return sh.get(id(obj), (None, obj))[1]
    return obj


def _shadow_for_write(obj):
    st = core.CUR
    ent = st.shadow.get(id(obj))
    if ent is None:
        d = SymDict()
        for k, v in obj.items():
            d.pairs.append((k, v))
            dict.__setitem__(d, k, v)
        ent = (obj, d)
        st.shadow[id(obj)] = ent
    return ent[1]


def _fields_sym(o):
    """does a plain instance hold symbolic values in its slots / __dict__ ?"""
    sl = getattr(type(o), "__slots__", None)
    if sl:
        if isinstance(sl, str):
            sl = (sl,)
        for n in sl:
            try:
                if has_sym(getattr(o, n)):
                    return True
            except AttributeError:
                pass
    d = getattr(o, "__dict__", None)
    if d:
        for v in d.values():
            if has_sym(v):
                return True
    return False


def _hashable(f):
    try:
        hash(f)
        return True
    except TypeError:
        return False


def _class_attr(cls, name):
    for k in cls.__mro__:
        d = k.__dict__.get(name)
        if d is not None:
            return d
    return None


def _mangle(name, cls_name):
    if cls_name and name.startswith("__") and not name.endswith("__"):
        return "_" + cls_name.lstrip("_") + name
    return name


def _load(tg):
    import copy
    n = copy.copy(tg)
    n.ctx = ast.Load()
    return n
