"""Dual-mode helpers for specification code (/verif/spec): each works natively on concrete
values and builds a z3 term (without forking) on symbolic ones.  Registered as models so
the interpreter calls them directly instead of interpreting their source."""
import z3
from . import core
from . import values as V
from .values import elems, kind_of, z_and, z_or, z_not, ceq, has_sym, SInt, truth
from . import chars as C


def _b(x):
    if isinstance(x, bool):
        return x
    return truth(x)


def and_(*xs):
    return z_and([_b(x) for x in xs])


def or_(*xs):
    return z_or([_b(x) for x in xs])


def not_(x):
    return z_not(_b(x))


def implies(a, b):
    return z_or([z_not(_b(a)), _b(b)])


def eq(a, b):
    return V.v_eq(a, b)


def contains(s, sub):
    if not has_sym(s) and not has_sym(sub):
        return sub in s
    return V.contains(elems(s), elems(sub))


def count_of(s, ch):
    """number of occurrences of the single character ch in s"""
    c0 = elems(ch)[0]
    es = elems(s)
    n = 0
    terms = []
    for c in es:
        r = ceq(c, c0)
        if r is True:
            n += 1
        elif r is not False:
            terms.append(z3.If(r, z3.BitVecVal(1, core.INT_BITS), z3.BitVecVal(0, core.INT_BITS)))
    if not terms:
        return n
    e = z3.BitVecVal(n, core.INT_BITS)
    for t in terms:
        e = e + t
    return SInt(e)


def ranges_pred(ranges):
    cs = C.CharSet(ranges)
    return cs


_CTRL = C.CharSet([(0, 0x1F), (0x7F, 0x9F)], "control")


def chars_all_in(s, ranges):
    """every character of s lies in one of the (lo, hi) ranges"""
    cs = C.CharSet(list(ranges))
    return z_and([cs.cond(c) for c in elems(s)])


def no_new_in_class(src, out, ranges):
    """every character of `out` that lies in the class also occurs in `src`"""
    cs = C.CharSet(list(ranges))
    se = elems(src)
    parts = []
    for c in elems(out):
        parts.append(z_or([z_not(cs.cond(c))] + [ceq(c, d) for d in se]))
    return z_and(parts)


def same_except(a, b, allowed):
    """len(a) == len(b) and for every i: a[i] == b[i] or allowed(i) (a list of bool/z3 per position)"""
    ea, eb = elems(a), elems(b)
    if len(ea) != len(eb):
        return False
    return z_and([z_or([ceq(x, y), al]) for x, y, al in zip(ea, eb, allowed)])


def char_in(c, ranges):
    cs = C.CharSet(list(ranges))
    return cs.cond(elems(c)[0])


def char_eq(a, b):
    return ceq(elems(a)[0], elems(b)[0])


def lower_hex_to_upper(a, b):
    """b is the upper-case form of the lower-case hex letter a (a in a-f)"""
    x, y = elems(a)[0], elems(b)[0]
    inr = C.CharSet([(0x61, 0x66)]).cond(x)
    if isinstance(x, int) and isinstance(y, int):
        return inr and y == x - 32
    xe = x if not isinstance(x, int) else z3.BitVecVal(x, core.CHAR_BITS)
    return z_and([inr, ceq(y, V.simp(xe - 32))])


def memo_call(f, *args):
    """f(*args); when run symbolically the result is computed once per path and shared
    by all obligations that ask for it."""
    return f(*args)


def _m_memo_call(interp, args, kw):
    st = core.CUR
    key = tuple(id(a) for a in args)
    ent = st.memo.get(key)
    if ent is None:
        try:
            ent = (args, interp.call(args[0], tuple(args[1:]), {}), None)
        except core.EngineSignal:
            raise
        except Exception as e:
            ent = (args, None, e)
        st.memo[key] = ent
    if ent[2] is not None:
        raise ent[2]
    return ent[1]


class StepLimit(Exception):
    """raised by bounded_call when the callee runs for too long (an unbounded loop)"""


NATIVE_STEP_LIMIT = 400000      # line events
SYMBOLIC_LOOP_CAP = 3000        # iterations of one while loop


def bounded_call(f, *args):
    """f(*args), giving up with StepLimit when it does not come back: natively after NATIVE_STEP_LIMIT traced
    line events, symbolically when one while loop passes SYMBOLIC_LOOP_CAP iterations (recursion has its own
    modelled limit: RecursionError)."""
    import sys
    count = [0]

    def tracer(frame, event, arg):
        count[0] += 1
        if count[0] > NATIVE_STEP_LIMIT:
            raise StepLimit("more than %d steps" % NATIVE_STEP_LIMIT)
        return tracer
    old = sys.gettrace()
    sys.settrace(tracer)
    try:
        return f(*args)
    finally:
        sys.settrace(old)


def _m_bounded_call(interp, args, kw):
    old = (interp.loop_cap, interp.loop_cap_exc)
    interp.loop_cap, interp.loop_cap_exc = SYMBOLIC_LOOP_CAP, StepLimit
    try:
        return interp.call(args[0], tuple(args[1:]), {})
    finally:
        interp.loop_cap, interp.loop_cap_exc = old


EXPORTS = [and_, or_, not_, implies, eq, contains, count_of, chars_all_in, no_new_in_class,
           same_except, char_in, char_eq, lower_hex_to_upper]


def register(func_models):
    def wrap(f):
        return lambda interp, args, kw: f(*args, **kw)
    for f in EXPORTS:
        func_models[f] = wrap(f)
    func_models[memo_call] = _m_memo_call
    func_models[bounded_call] = _m_bounded_call
