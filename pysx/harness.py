"""Check runner: items -> (parallel) exploration -> verdicts, replay files, evidence."""
import hashlib
import importlib
import json
import os
import sys
import time
import traceback
import z3

from . import core, api, lib, models
from .core import Explorer, PathCut, Unsupported
from .api import attempt, native_attempt, concretize, INTERP
from .values import truth, z_not, has_sym
from . import interp as _interp

lib.register(models.FUNC_MODELS)

VERIF = os.path.dirname(os.path.dirname(os.path.abspath(__file__)))
HARNESS_ERROR = 3


# ---------------------------------------------------------------------------
# argument codec for replay files
def enc(v):
    if isinstance(v, (str, int, bool, float, type(None))):
        return v
    if isinstance(v, bytes):
        return {"$bytes": list(v)}
    if isinstance(v, tuple):
        return {"$tuple": [enc(x) for x in v]}
    if isinstance(v, list):
        return [enc(x) for x in v]
    if isinstance(v, dict):
        return {"$dict": [[enc(k), enc(x)] for k, x in v.items()]}
    if isinstance(v, set):
        return {"$set": [enc(x) for x in sorted(v, key=repr)]}
    if callable(v):
        return {"$fn": fn_name(v)}
    raise TypeError("cannot encode %r" % (v,))


def dec(v):
    if isinstance(v, list):
        return [dec(x) for x in v]
    if isinstance(v, dict):
        if "$bytes" in v:
            return bytes(v["$bytes"])
        if "$tuple" in v:
            return tuple(dec(x) for x in v["$tuple"])
        if "$dict" in v:
            return {dec(k): dec(x) for k, x in v["$dict"]}
        if "$set" in v:
            return set(dec(x) for x in v["$set"])
        if "$fn" in v:
            return resolve(v["$fn"])
    return v


_FN_NAMES = {}


def fn_name(f):
    n = _FN_NAMES.get(id(f))
    if n:
        return n
    mod = getattr(f, "__module__", None)
    qn = getattr(f, "__qualname__", None)
    if mod and qn:
        return mod + ":" + qn
    raise TypeError("unnamed callable %r (register it with harness.name_fn)" % (f,))


def name_fn(f, name):
    _FN_NAMES[id(f)] = name
    return f


def resolve(name):
    mod, qn = name.split(":")
    o = importlib.import_module(mod)
    for part in qn.split("."):
        o = getattr(o, part)
    return o


# ---------------------------------------------------------------------------
class Collector(object):
    def __init__(self):
        self.reached = 0
        self.discharged = 0
        self.validated = 0
        self.mismatch = []
        self.violations = []
        self.known_hits = {}
        self.spurious = 0
        self.inconclusive = []
        self.samples = []
        self.labels = {}


class ColHook(object):
    """carries the Collector across fork-based exploration (child -> parent)"""

    def reset_in_child(self):
        global COL
        COL = Collector()

    def dump(self):
        return (COL.__dict__, dict(_interp.ENCODED))

    def merge(self, data):
        d, encd = data
        c = COL
        for k in ("reached", "discharged", "validated", "spurious"):
            setattr(c, k, getattr(c, k) + d[k])
        c.mismatch.extend(d["mismatch"][:5])
        c.n_mismatch_extra = getattr(c, "n_mismatch_extra", 0) + max(0, len(d["mismatch"]) - 5) + d.get("n_mismatch_extra", 0)
        c.violations.extend(d["violations"])
        c.inconclusive.extend(d["inconclusive"][:5])
        c.n_inconclusive_extra = getattr(c, "n_inconclusive_extra", 0) + max(0, len(d["inconclusive"]) - 5) + d.get("n_inconclusive_extra", 0)
        if len(c.samples) < 3:
            c.samples.extend(d["samples"][:3 - len(c.samples)])
        for k, v in d["labels"].items():
            c.labels[k] = c.labels.get(k, 0) + v
        for k, v in d["known_hits"].items():
            c.known_hits[k] = c.known_hits.get(k, 0) + v
        _interp.ENCODED.update(encd)


COL = None
KNOWN = {}        # label -> list of (finding_id, sig)
MAX_VIOL = int(os.environ.get("VERIF_MAX_VIOL", "1"))


class StopItem(core.EngineSignal):
    pass


def _holds(out):
    return out.exc is None and bool(out.value)


def run_prop(st, label, prop, *args):
    """Decide one obligation on the current path: prop(*args) must be true.
    prop is ordinary Python (spec code) run symbolically; the same function is the
    native oracle used to validate the path and to replay counterexamples."""
    col = COL
    out = attempt(prop, *args)
    col.reached += 1
    col.labels[label] = col.labels.get(label, 0) + 1
    if out.exc is not None:
        cond = False
    else:
        cond = out.value if isinstance(out.value, bool) else truth(out.value)
    # -- translation validation of this path on one concrete point
    m = st.current_model()
    cargs = concretize(m, list(args))
    nat = native_attempt(prop, *cargs)
    sym_val = concretize(m, cond)
    if bool(sym_val) != _holds(nat):
        diag = ""
        if os.environ.get("PYSX_DEBUG_MISMATCH"):
            bad = []
            for k in st.keys:
                px = st.ex.by_key[abs(k) - 1]
                v = m.eval(px.cond, model_completion=True)
                if z3.is_true(v) != (k > 0):
                    bad.append((st.keys.index(k), k, " ".join(px.cond.sexpr().split())[:200]))
            rawbad = [(" ".join(c.sexpr().split())[:3000], c.get_id() in st.raw_ok, c.get_id() in st.raw_seen,
                       [(str(d), str(m[d])) for d in m.decls() if str(d) in " ".join(c.sexpr().split())])
                      for c in st.ex.raw_done.values()
                      if not z3.is_true(m.eval(c, model_completion=True))]
            diag = {"lits": len(st.keys), "preloaded": st.n_preloaded, "bad_lits": bad[:5], "bad_raw": rawbad[:5],
                    "recheck": str(st._check()), "model_valid": st.model_valid, "model_src": getattr(st, "model_src", "stored"), "cond": " ".join(cond.sexpr().split())[:1500] if hasattr(cond, "sexpr") else repr(cond)}
        col.mismatch.append({"label": label, "args": _safe_enc(cargs), "symbolic": bool(sym_val),
                             "native": repr(nat), "diag": diag})
    else:
        col.validated += 1
        if len(col.samples) < 3:
            col.samples.append({"label": label, "args": _safe_enc(cargs), "holds": _holds(nat)})
    if cond is True:
        col.discharged += 1
        return True
    neg = True if cond is False else z3.Not(cond)
    excl = []
    for fid, sig in KNOWN.get(label, ()):  # exclude listed findings (sig is spec code, may fork)
        so = attempt(sig, *args)
        if so.exc is not None:
            col.inconclusive.append("known-finding signature %s raised %r" % (fid, so.exc))
            continue
        s = so.value if isinstance(so.value, bool) else truth(so.value)
        if s is True:
            # whole path lies inside a known finding
            col.known_hits[fid] = col.known_hits.get(fid, 0) + 1
            col.discharged += 1
            return True
        if s is not False:
            excl.append(z3.Not(s))
    extra = ([neg] if neg is not True else []) + excl
    r, m2 = st.sat_model(*extra)
    if r == z3.unsat:
        col.discharged += 1
        if excl:
            # is the known finding itself present on this path? (informational)
            pass
        return True
    if r == z3.unknown:
        col.inconclusive.append("unknown verdict for %s" % label)
        return True
    cargs2 = concretize(m2, list(args))
    nat2 = native_attempt(prop, *cargs2)
    if _holds(nat2):
        col.spurious += 1
        col.inconclusive.append("non-reproducing model for %s: %s" % (label, _safe_enc(cargs2)))
        return True
    col.violations.append({"label": label, "prop": fn_name(prop), "args": _safe_enc(cargs2),
                           "observed": repr(nat2)[:300]})
    if len(col.violations) >= MAX_VIOL:
        raise StopItem()
    return False


def _safe_enc(a):
    try:
        return enc(a)
    except TypeError:
        return repr(a)


def reach_only(st):
    COL.reached += 1


# ---------------------------------------------------------------------------
def run_item(item):
    """item: dict(mod=<checks module>, fn=<name>, params=..., budget_s=..)"""
    global COL
    COL = Collector()
    t0 = time.time()
    mod = importlib.import_module(item["mod"])
    fn = getattr(mod, item["fn"])
    params = item.get("params", {})
    global KNOWN
    KNOWN = {}
    for e in load_known(item.get("pid", "")):
        if e.get("status") == "open" and e.get("sig"):
            for lb in e.get("labels", []):
                KNOWN.setdefault(lb, []).append((e["id"], resolve(e["sig"])))

    models.NETLOC_ASCII = bool(item.get("netloc_ascii", False))

    def body(st):
        fn(st, **params)
    ex = Explorer(body, max_seconds=item.get("budget_s", float(os.environ.get("PYSX_ITEM_BUDGET_S", "900"))), timeout_ms=item.get("timeout_ms", 60000),
                  prefix_roots=item.get("roots"), defer_depth=item.get("defer_depth"),
                  yield_after=item.get("yield_s", float(os.environ.get("PYSX_YIELD_S", "15"))))
    err = None
    stopped = False

    def target():
        nonlocal err, stopped
        try:
            ex.run()
        except StopItem:
            stopped = True
        except BaseException as e:  # noqa
            err = traceback.format_exc()
    import threading
    th = threading.Thread(target=target)
    th.start()
    th.join()
    c = COL
    st = ex.stats
    return {
        "item": {k: v for k, v in item.items() if k != "roots"},
        "paths": st.paths, "cut": st.paths_cut, "cut_reasons": st.cut_reasons,
        "unsupported": st.unsupported, "decisions": st.decisions, "queries": st.queries,
        "solver_s": st.solver_s, "unknown": st.unknown, "reached": c.reached,
        "discharged": c.discharged, "validated": c.validated, "mismatch": c.mismatch[:5],
        "n_mismatch": len(c.mismatch) + getattr(c, "n_mismatch_extra", 0), "violations": c.violations, "spurious": c.spurious,
        "inconclusive": (ex.inconclusive + c.inconclusive)[:20],
        "n_inconclusive": ex.n_inconclusive + len(c.inconclusive) + getattr(c, "n_inconclusive_extra", 0),

        "truncated": ex.truncated, "stopped": stopped, "error": err, "samples": c.samples,
        "labels": c.labels, "known_hits": c.known_hits,
        "deferred": ex.deferred,
        "wall_s": time.time() - t0, "encoded": dict(("%s:%s" % k, v) for k, v in _interp.ENCODED.items()),
    }


def _worker2(item):
    dl = item.get("deadline")
    if dl is not None:
        left = dl - time.time()
        if left < 5:
            r = _empty_result(item)
            r["truncated"] = True
            r["inconclusive"] = ["not started: the check's time budget was used up"]
            r["n_inconclusive"] = 1
            return r
        item = dict(item)
        item["budget_s"] = min(item.get("budget_s", float(os.environ.get("PYSX_ITEM_BUDGET_S", "900"))), left)
    try:
        return run_item(item)
    except BaseException:
        r = _empty_result(item)
        r["error"] = traceback.format_exc()
        return r


def _empty_result(item):
    if True:
        return {"item": {k: v for k, v in item.items() if k != "roots"}, "error": None, "paths": 0, "cut": 0, "cut_reasons": {},
                "unsupported": {}, "decisions": 0, "queries": 0, "solver_s": 0.0, "unknown": 0,
                "reached": 0, "discharged": 0, "validated": 0, "mismatch": [], "n_mismatch": 0,
                "violations": [], "spurious": 0, "inconclusive": [], "n_inconclusive": 0,
                "truncated": False, "stopped": False, "samples": [], "labels": {}, "known_hits": {},
                "wall_s": 0.0, "encoded": {}, "deferred": []}


class _Proc(object):
    __slots__ = ("pid", "tfd", "rfd", "buf", "idx", "started", "done", "killed")


def _serve(items, tr, rw):
    """worker process: item indices arrive on tr (4 bytes each), pickled results leave on rw"""
    import pickle
    import struct
    n = 0
    max_tasks = int(os.environ.get("PYSX_WORKER_TASKS", "24"))
    max_rss = float(os.environ.get("PYSX_WORKER_RSS_MB", "1500"))
    while n < max_tasks:
        h = os.read(tr, 4)
        if len(h) < 4:
            break
        i = struct.unpack("<i", h)[0]
        try:
            data = pickle.dumps(_worker2(items[i]))
        except BaseException:
            er = _empty_result(items[i])
            er["error"] = traceback.format_exc()
            data = pickle.dumps(er)
        n += 1
        last = n >= max_tasks or core._rss_mb() > max_rss
        data = struct.pack("<iB", len(data), 1 if last else 0) + data
        off = 0
        while off < len(data):
            off += os.write(rw, data[off:off + (1 << 16)])
        sys.stdout.flush()
        sys.stderr.flush()
        if last:
            break


def run_items(items, jobs=None):
    """Run items in forked worker processes, at most `jobs` at a time.  Workers are reused (their
    caches of character classes and parsed sources are expensive) and retire after a number of
    tasks or above a memory mark.  A worker that dies without reporting (crash, kill) or overruns
    its item's budget by far yields a harness error for that item instead of hanging the run."""
    import pickle
    import select
    import signal
    import struct
    jobs = jobs or min(16, os.cpu_count() or 4)
    if len(items) == 1 or jobs == 1:
        return [_worker2(it) for it in items]
    order = sorted(range(len(items)), key=lambda i: -items[i].get("weight", 1))
    results = [None] * len(items)
    procs = {}        # rfd -> _Proc
    attempts = {}
    grace = 180.0
    default_budget = float(os.environ.get("PYSX_ITEM_BUDGET_S", "900"))

    def spawn():
        tr, tw = os.pipe()
        rr, rw = os.pipe()
        sys.stdout.flush()
        sys.stderr.flush()
        pid = os.fork()
        if pid == 0:
            code = 0
            try:
                os.close(tw)
                os.close(rr)
                for q in procs.values():
                    os.close(q.tfd)
                    os.close(q.rfd)
                _serve(items, tr, rw)
            except BaseException:
                code = 1
            finally:
                os._exit(code)
        os.close(tr)
        os.close(rw)
        p = _Proc()
        p.pid, p.tfd, p.rfd, p.buf, p.idx, p.started, p.done, p.killed = pid, tw, rr, b"", None, 0.0, False, False
        procs[rr] = p
        return p

    def give(p):
        p.idx = order.pop(0)
        p.started = time.time()
        os.write(p.tfd, struct.pack("<i", p.idx))

    def retire(p, failed):
        del procs[p.rfd]
        for fd in (p.tfd, p.rfd):
            try:
                os.close(fd)
            except OSError:
                pass
        status = None
        try:
            status = os.waitpid(p.pid, 0)[1]
        except ChildProcessError:
            pass
        if failed and p.idx is not None and p.killed:
            # stopped by this scheduler for overrunning its budget: what it had explored is lost, nothing is claimed
            res = _empty_result(items[p.idx])
            res["truncated"] = True
            res["inconclusive"] = ["stopped: the item overran its time budget by more than %d s" % int(grace)]
            res["n_inconclusive"] = 1
            results[p.idx] = res
        elif failed and p.idx is not None:
            how = "signal %d" % (status & 0x7F) if status is not None and status & 0x7F else "exit status %r" % (None if status is None else status >> 8)
            attempts[p.idx] = attempts.get(p.idx, 0) + 1
            sys.stderr.write("worker for item %r died (%s), attempt %d\n" % (items[p.idx].get("name"), how, attempts[p.idx]))
            if attempts[p.idx] < 3:
                order.insert(0, p.idx)      # run it again in a fresh worker
            else:
                res = _empty_result(items[p.idx])
                res["error"] = "the worker process running this item died without reporting, three times (%s)" % how
                results[p.idx] = res

    while order or any(p.idx is not None for p in procs.values()):
        for p in list(procs.values()):
            if p.idx is None and order:
                give(p)
        while order and len(procs) < jobs:
            give(spawn())
        busy = [p.rfd for p in procs.values() if p.idx is not None]
        ready, _, _ = select.select(busy, [], [], 2.0)
        for r in ready:
            p = procs[r]
            chunk = os.read(r, 1 << 20)
            if not chunk:
                retire(p, True)
                continue
            p.buf += chunk
            if len(p.buf) >= 5:
                n, last = struct.unpack("<iB", p.buf[:5])
                if len(p.buf) >= 5 + n:
                    try:
                        results[p.idx] = pickle.loads(p.buf[5:5 + n])
                    except Exception:
                        res = _empty_result(items[p.idx])
                        res["error"] = "unreadable result from worker"
                        results[p.idx] = res
                    p.buf = b""
                    p.idx = None
                    if last:
                        retire(p, False)
        now = time.time()
        for p in list(procs.values()):
            if p.idx is None:
                continue
            it = items[p.idx]
            limit = it.get("budget_s", default_budget)
            dl = it.get("deadline")
            if dl is not None:
                limit = min(limit, max(30.0, dl - p.started))
            if now - p.started > limit + grace:
                p.killed = True
                try:
                    os.kill(p.pid, signal.SIGKILL)
                except ProcessLookupError:
                    pass
    for p in list(procs.values()):
        retire(p, False)
    return results


# ---------------------------------------------------------------------------
def load_known(pid):
    p = os.path.join(VERIF, "known_findings.json")
    if not os.path.exists(p):
        return []
    with open(p) as f:
        data = json.load(f)
    return [e for e in data.get("findings", []) if e.get("property") == pid]


def write_replay(pid, v):
    d = os.path.join(os.environ.get("VERIF_REPLAY_DIR") or os.path.join(VERIF, "replays"), pid)
    os.makedirs(d, exist_ok=True)
    blob = json.dumps({"property": pid, "label": v["label"], "prop": v["prop"], "args": v["args"]},
                      sort_keys=True, ensure_ascii=True)
    h = hashlib.sha1(blob.encode()).hexdigest()[:10]
    path = os.path.join(d, "%s_%s.json" % (v["label"].replace("/", "_").replace(" ", "_")[:60], h))
    with open(path, "w") as f:
        f.write(blob + "\n")
    return path


def replay(path):
    """Re-run a recorded counterexample natively against /repo. exit 1 when it violates."""
    with open(path) as f:
        r = json.load(f)
    prop = resolve(r["prop"])
    args = dec(r["args"])
    out = native_attempt(prop, *args)
    print("replay %s label=%s" % (r["property"], r["label"]))
    print("  prop   :", r["prop"])
    print("  args   :", args)
    print("  outcome:", out)
    if _holds(out):
        print("  -> property holds on this input")
        return 0
    explain = getattr(sys.modules[prop.__module__], "explain", None)
    if explain:
        try:
            print("  detail :", explain(r["label"], *args))
        except Exception as e:
            print("  (explain failed: %r)" % e)
    print("VIOLATION property=%s replay=%s" % (r["property"], path))
    return 1


def main_check(pid, modname, tier, seed):
    t0 = time.time()
    mod = importlib.import_module(modname)
    items = mod.items(tier)
    # wall-clock budget of the whole run: items not started by then are reported as not explored
    budget = float(os.environ.get("VERIF_BUDGET_S", "480" if tier == "quick" else "1500"))
    for it in items:
        it.setdefault("mod", modname)
        it["pid"] = pid
        it["deadline"] = t0 + budget
        # quick tier: symbolic netloc characters are ASCII unless the item asks for all code points
        it.setdefault("netloc_ascii", tier == "quick")
    jobs = int(os.environ.get("VERIF_JOBS", "0")) or None
    results = run_items(items, jobs)
    # work sharing: sub-trees handed back (split depth reached / item ran longer than its
    # slice) are explored as separate items, repeatedly until nothing is handed back
    pending = list(zip(items, results))
    rounds = 0
    while True:
        sub = []
        for it, r in pending:
            roots = r.get("deferred") or []
            if roots:
                per = max(1, len(roots) // 64)
                for i in range(0, len(roots), per):
                    s_it = dict(it)
                    s_it.pop("defer_depth", None)
                    s_it["roots"] = roots[i:i + per]
                    s_it["name"] = "%s [subtree %d.%d]" % (it.get("name", "").split(" [subtree")[0], rounds, i // per)
                    sub.append(s_it)
        if not sub:
            break
        sub_results = run_items(sub, jobs)
        results = results + sub_results
        pending = list(zip(sub, sub_results))
        rounds += 1
    # --- known findings: replay witnesses natively
    known = load_known(pid)
    known_lines = []
    for e in known:
        if e.get("status") == "fixed":
            continue
        prop = resolve(e["prop"])
        out = native_attempt(prop, *dec(e["args"]))
        if not _holds(out):
            known_lines.append("KNOWN-FINDING: property=%s %s" % (pid, e["what"]))
    for ln in known_lines:
        print(ln)
    # --- aggregate
    agg = {k: 0 for k in ("paths", "cut", "decisions", "queries", "reached", "discharged", "validated",
                          "n_mismatch", "spurious", "n_inconclusive", "unknown")}
    solver_s = 0.0
    viol = []
    errors = []
    cut_reasons = {}
    unsupported = {}
    encoded = {}
    samples = []
    labels = {}
    known_hits = {}
    truncated = 0
    per_item = []
    for r in results:
        for k in agg:
            agg[k] += r.get(k, 0)
        solver_s += r["solver_s"]
        viol.extend(r["violations"])
        if r.get("error"):
            errors.append(r["error"])
        for d, s in ((cut_reasons, r["cut_reasons"]), (unsupported, r["unsupported"]), (labels, r["labels"]),
                     (known_hits, r["known_hits"])):
            for k, v in s.items():
                d[k] = d.get(k, 0) + v
        encoded.update(r["encoded"])
        if len(samples) < 8:
            samples.extend(r["samples"][:2])
        truncated += 1 if r["truncated"] else 0
        per_item.append({"item": r["item"].get("name") or r["item"].get("params"), "paths": r["paths"],
                         "reached": r["reached"], "wall_s": round(r["wall_s"], 2),
                         "truncated": r["truncated"], "inconclusive": r["n_inconclusive"],
                         "violations": len(r["violations"])})
    # distinct violations
    seen = set()
    out_lines = []
    for v in viol:
        key = json.dumps([v["label"], v["args"]], sort_keys=True)
        if key in seen:
            continue
        seen.add(key)
        path = write_replay(pid, v)
        out_lines.append("VIOLATION property=%s replay=%s" % (pid, path))
        print("  %s  args=%s observed=%s" % (v["label"], json.dumps(v["args"], ensure_ascii=True)[:300], v["observed"][:200]))
    for ln in out_lines:
        print(ln)
    exhaustive = (not errors and agg["n_inconclusive"] == 0 and truncated == 0 and agg["n_mismatch"] == 0
                  and not viol)
    wall = time.time() - t0
    bounds = getattr(mod, "BOUNDS", {}).get(tier, "")
    ev = {
        "property_id": pid, "tier": tier, "seed": seed, "level": "model_checking",
        "coverage": {
            "states": max(agg["paths"], 1), "transitions": max(agg["decisions"], 1),
            "traces_validated_against_impl": agg["validated"],
            "samples": samples or [{"note": "no path reached an obligation"}],
            "obligations_reached": agg["reached"], "obligations_discharged": agg["discharged"],
            "obligation_labels": labels,
            "solver_queries": agg["queries"], "solver_s": round(solver_s, 2),
            "solver_unknown": agg["unknown"], "paths_cut_by_assumptions": agg["cut"],
            "cut_reasons": cut_reasons, "unsupported_constructs": unsupported,
            "inconclusive": agg["n_inconclusive"], "items_truncated_by_budget": truncated,
            "path_validation_mismatches": agg["n_mismatch"], "spurious_models": agg["spurious"],
            "known_finding_paths": known_hits,
            "exhaustive": exhaustive, "bounds": bounds,
            "functions_encoded": sorted("%s @ %s:%s #%s" % (k, v[0], v[1], v[2]) for k, v in encoded.items()),
            "stubs": getattr(mod, "STUBS", []), "trusted_base": getattr(mod, "TRUSTED", []),
            "items": per_item, "harness_errors": [e[-400:] for e in errors[:3]],
        },
        "assumptions": list(getattr(mod, "ASSUMPTIONS", [])) + (
            ["quick tier: symbolic characters inside a netloc are ASCII, except in items that target non-ASCII netlocs (paths cut are counted in cut_reasons); "
             "the thorough tier runs the exact model of urlsplit's NFKC check over all code points"] if tier == "quick" else []),
        "wall_s": round(wall, 2), "violations": len(out_lines),
    }
    evdir = os.environ.get("VERIF_EVIDENCE_DIR") or os.path.join(VERIF, "evidence")
    os.makedirs(evdir, exist_ok=True)
    with open(os.path.join(evdir, pid + ".json"), "w") as f:
        json.dump(ev, f, indent=1, ensure_ascii=True, default=repr)
    print("%s %s: items=%d paths=%d reached=%d discharged=%d validated=%d mismatches=%d inconclusive=%d "
          "truncated=%d violations=%d queries=%d solver=%.1fs wall=%.1fs"
          % (pid, tier, len(items), agg["paths"], agg["reached"], agg["discharged"], agg["validated"],
             agg["n_mismatch"], agg["n_inconclusive"], truncated, len(out_lines), agg["queries"], solver_s, wall))
    for r in results:
        for mm in r["mismatch"][:2]:
            print("  ENGINE-MISMATCH (path validation):", json.dumps(mm, ensure_ascii=True)[:400])
    if unsupported:
        print("  unsupported:", json.dumps(unsupported)[:600])
    if errors:
        print("HARNESS ERROR:\n" + errors[0][-1500:])
        return HARNESS_ERROR
    if agg["reached"] == 0:
        print("HARNESS ERROR: no path reached an obligation (vacuous)")
        return HARNESS_ERROR
    if out_lines:
        return 1
    return 0
