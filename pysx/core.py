"""pysx core: path state, exploration by re-execution, z3 plumbing.

A path is identified by a *set of literals*: every distinct branch condition gets a
Boolean proxy (b <=> cond, asserted once, permanently) and the path condition is the
list of proxy literals decided so far.  The solver is only ever queried under
assumptions (no push/pop).  A queued path is re-executed from the start with its
literal set pre-loaded: a branch whose condition is already among the literals costs
nothing; a condition that is new (also one that is merely structurally different from
the one met originally) is decided by the solver under the full intended path condition,
so re-execution never relies on positional alignment of decisions.  Unsat cores of
"other side infeasible" queries are kept as learned implications (core => decision)
and reused on later paths.
"""
import os
import sys
import time
import z3

CHAR_BITS = 21
BYTE_BITS = 8
INT_BITS = 32


# ---------------------------------------------------------------------------
# job tokens (a plain semaphore over a pipe, shared by the processes of one check)
_JOBS = None


def jobserver_init(n_tokens):
    global _JOBS
    r, w = os.pipe()
    os.set_blocking(r, False)
    os.write(w, b"x" * max(0, n_tokens))
    _JOBS = (r, w)


def jobserver_try_acquire():
    if _JOBS is None:
        return False
    try:
        return len(os.read(_JOBS[0], 1)) == 1
    except (BlockingIOError, InterruptedError):
        return False


def jobserver_acquire_blocking():
    if _JOBS is None:
        return False
    import select
    while True:
        select.select([_JOBS[0]], [], [])
        if jobserver_try_acquire():
            return True


def jobserver_release():
    if _JOBS is not None:
        os.write(_JOBS[1], b"x")


# ---------------------------------------------------------------------------
class EngineSignal(BaseException):
    """Engine control flow; never caught by interpreted `except Exception`."""


class PathCut(EngineSignal):
    """An assumption of the harness excluded this path (counted, not an error)."""

    def __init__(self, reason):
        self.reason = reason


class Unsupported(EngineSignal):
    """The interpreter met a construct it does not model: path is inconclusive."""

    def __init__(self, what):
        self.what = what

    def __str__(self):
        return "Unsupported(%s)" % (self.what,)


class SolverUnknown(EngineSignal):
    pass


class Truncated(EngineSignal):
    """time budget exhausted: the rest of this path is not explored"""


class Deferred(EngineSignal):
    """Path handed over to another work item at the split depth."""


class Stats(object):
    def __init__(self):
        self.paths = 0
        self.paths_cut = 0
        self.cut_reasons = {}
        self.unsupported = {}
        self.decisions = 0
        self.queries = 0
        self.solver_s = 0.0
        self.unknown = 0
        self.learned_hits = 0
        self.lit_hits = 0
        self.max_prefix = 0

    def as_dict(self):
        return dict(self.__dict__)


_CHARVARS = {}
NO_LEARN = bool(os.environ.get("PYSX_NO_LEARN"))
DEBUG_FEAS = bool(os.environ.get("PYSX_DEBUG_FEAS"))
CUR = None  # PathState of the path being executed (one explorer per process)


def cur():
    return CUR


def _rss_mb():
    try:
        with open("/proc/self/statm") as f:
            return int(f.read().split()[1]) * 4096 // (1 << 20)
    except Exception:
        return 0


def _assert(solver, e):
    z3.Z3_solver_assert(solver.ctx.ref(), solver.solver, e.as_ast())


class Proxy(object):
    __slots__ = ("cond", "b", "nb", "b_ast", "nb_ast", "k", "gen")


class PathState(object):
    """State of the path being executed.  Created by Explorer for each path."""

    def __init__(self, explorer, keys, model, raw_ok=None):
        ex = explorer
        self.ex = ex
        self.model = model          # z3 model satisfying the pre-loaded literals (None for roots)
        self.model_valid = model is not None
        self.created = {}           # id -> obj for objects created on this path
        self.inputs = {}            # name -> z3 var (harness inputs, for concretisation)
        self.depth = 0              # interpreted call depth
        self.raw_ok = raw_ok if raw_ok is not None else frozenset()   # ids of lemmas the stored model satisfies
        self.raw_seen = set()       # lemmas met on this path so far: all of them are asserted in the current solver
        self.decided = {}
        self.memo = {}
        self.shadow = {}            # id(real dict) -> (real dict, path-local SymDict) for dicts written by interpreted code
        self.keys = list(keys)      # signed proxy keys: k+1 for b_k, -(k+1) for not b_k
        self.litset = set(self.keys)
        self.lits = []              # the same literals as z3 ast handles (assumptions)
        for k in self.keys:
            px = ex.by_key[abs(k) - 1]
            ex.register(px)
            self.lits.append(px.b_ast if k > 0 else px.nb_ast)
        self.n_preloaded = len(self.keys)

    @property
    def solver(self):
        return self.ex.solver

    # -- symbolic inputs ------------------------------------------------
    def bv(self, name, bits):
        v = self.inputs.get(name)
        if v is None:
            v = z3.BitVec(name, bits)
            self.inputs[name] = v
        return v

    def char_var(self, name, domain=None):
        """A symbolic code point: any scalar value except surrogates, or within
        `domain` (list of (lo, hi) ranges) when given."""
        key = (name, None if domain is None else tuple(domain))
        ent = _CHARVARS.get(key)
        if ent is None:
            v = z3.BitVec(name, CHAR_BITS)
            if domain is None:
                c = z3.And(z3.ULE(v, 0x10FFFF), z3.Or(z3.ULT(v, 0xD800), z3.UGT(v, 0xDFFF)))
            else:
                c = z3.Or([z3.And(z3.ULE(lo, v), z3.ULE(v, hi)) if lo != hi else v == lo
                           for lo, hi in domain])
            ent = (v, c)
            _CHARVARS[key] = ent
        v, c = ent
        if name not in self.inputs:
            self.inputs[name] = v
            self.assume_raw(c)
        return v

    def byte_var(self, name):
        return self.bv(name, BYTE_BITS)

    def bool_var(self, name):
        v = self.inputs.get(name)
        if v is None:
            v = z3.Bool(name)
            self.inputs[name] = v
        return v

    def int_var(self, name, lo, hi):
        v = self.bv(name, INT_BITS)
        self.assume_raw(z3.And(z3.ULE(lo, v), z3.ULE(v, hi)))
        return v

    # -- constraints ----------------------------------------------------
    def assume_raw(self, cond):
        """A globally valid constraint (input domain, definition of a fresh variable):
        asserted once, permanently, needs no decision."""
        ex = self.ex
        cid = cond.get_id()
        if cid not in ex.raw_done:
            ex.raw_done[cid] = cond
            ex.raw_keep.setdefault(cid, cond)
            _assert(self.solver, cond)
        self.raw_seen.add(cid)
        if cid in self.raw_ok:
            # the model this path holds was produced with this very lemma asserted (by identity: a
            # positional count is unsound, re-execution may build a structurally different lemma;
            # raw_ok is replaced whenever the model is)
            return
        if self.model_valid:
            if not z3.is_true(self.model.eval(cond, model_completion=True)):
                self.model_valid = False

    def assume(self, cond, reason="assume"):
        """Harness/model assumption: paths violating it are cut (and counted)."""
        if cond is True:
            return
        if cond is False:
            raise PathCut(reason)
        if not self.branch(cond):
            raise PathCut(reason)

    def _ensure_model(self):
        if not self.model_valid:
            r = self._check()
            if r == z3.sat:
                self.model = self.solver.model()
                self.model_valid = True
                self.raw_ok = frozenset(self.raw_seen)
            elif r == z3.unsat:
                # must not happen: every literal is added on a side known to be feasible
                self.ex.note_inconclusive("engine anomaly: path condition became unsatisfiable")
                raise PathCut("engine-anomaly-infeasible")
            else:
                raise SolverUnknown()

    def _check(self, *extra_asts):
        """check PC literals + extra literal handles"""
        ex = self.ex
        t = time.time()
        al = self.lits + list(extra_asts)
        n = len(al)
        arr = (z3.Ast * n)(*al)
        r = z3.Z3_solver_check_assumptions(ex.ctx_ref, self.solver.solver, n, arr)
        dt = time.time() - t
        ex.stats.solver_s += dt
        ex.stats.queries += 1
        if r == 1:
            return z3.sat
        if r == -1:
            return z3.unsat
        ex.stats.unknown += 1
        return z3.unknown

    def _add_lit(self, px, d):
        k = px.k + 1 if d else -(px.k + 1)
        self.lits.append(px.b_ast if d else px.nb_ast)
        self.litset.add(k)
        self.keys.append(k)
        if DEBUG_FEAS and self._check() == z3.unsat:
            sys.stderr.write("INFEASIBLE after literal %d: %s\n" % (k, " ".join(px.cond.sexpr().split())[:300]))
            raise PathCut("debug-infeasible")

    def branch(self, cond):
        """Decide a symbolic condition on this path; queue the other side."""
        if cond is True or cond is False:
            return cond
        cid = cond.get_id()
        ent = self.decided.get(cid)
        if ent is not None:
            return ent[1]
        d = self._branch(cond)
        self.decided[cid] = (cond, d)
        return d

    def _branch(self, cond):
        ex = self.ex
        if not isinstance(cond, z3.BoolRef):
            raise TypeError("branch on %r" % (cond,))
        px = ex.proxy(cond)
        st = ex.stats
        ls = self.litset
        k1 = px.k + 1
        # already part of this path's condition (pre-loaded literal or repeated test)
        if k1 in ls:
            st.lit_hits += 1
            return True
        if -k1 in ls:
            st.lit_hits += 1
            return False
        dd = ex.defer_depth
        if dd is not None and len(self.keys) >= dd:
            ex.deferred.append(ex.export_keys(self.keys))
            raise Deferred()
        st.decisions += 1
        if ex.deadline is not None and time.time() > ex.deadline:
            raise Truncated()
        if st.decisions % 2000 == 0 and _rss_mb() > ex.max_rss_mb:
            ex.note_inconclusive("memory guard: process above %d MB" % ex.max_rss_mb)
            raise Truncated()
        # learned implications: core (subset of the path literals) => this literal infeasible
        for pol in (True, False):
            cores = ex.learned.get(k1 if pol else -k1)
            if cores:
                for core in cores:
                    if core <= ls:
                        st.learned_hits += 1
                        self._add_lit(px, not pol)
                        return not pol
        self._ensure_model()
        mv = self.model.eval(cond, model_completion=True)
        if z3.is_true(mv):
            d = True
        elif z3.is_false(mv):
            d = False
        else:
            d = self._check(px.b_ast) == z3.sat
            self.model_valid = False
        other_ast = px.nb_ast if d else px.b_ast
        r = self._check(other_ast)
        if r == z3.sat:
            ex.push_work(self.keys + [-k1 if d else k1], self.solver.model(), frozenset(self.raw_seen))
        elif r == z3.unsat:
            core = ex.core_keys(other_ast)
            if core is not None and not NO_LEARN:
                ex.learned.setdefault(-k1 if d else k1, []).append(core)
        else:
            ex.note_inconclusive("unknown at branch")
        self._add_lit(px, d)
        return d

    # -- end-of-path queries ---------------------------------------------
    def sat_model(self, *extra):
        """Is PC ∧ extra satisfiable?  Returns (status, model|None)."""
        asts = []
        keep = []
        for e in extra:
            px = self.ex.proxy(e)
            keep.append(px)
            asts.append(px.b_ast)
        r = self._check(*asts)
        m = self.solver.model() if r == z3.sat else None
        return r, m

    def current_model(self):
        self._ensure_model()
        return self.model


class _Raw(object):
    """a root handed over by another process, still in its portable form"""
    __slots__ = ("items",)

    def __init__(self, items):
        self.items = items


class Explorer(object):
    def __init__(self, fn, timeout_ms=60000, max_paths=None, max_seconds=None,
                 logic=os.environ.get("PYSX_LOGIC", "QF_BV"), prefix_roots=None, defer_depth=None,
                 yield_after=None):
        self.fn = fn
        self.yield_after = yield_after
        self.max_rss_mb = int(os.environ.get("PYSX_MAX_RSS_MB", "3000"))
        self.defer_depth = defer_depth
        self.deferred = []
        self.max_defs = int(os.environ.get("PYSX_MAX_DEFS", "200"))
        self.proxies = {}          # cond ast id -> Proxy
        self.by_key = []           # k -> Proxy
        self.by_ast = {}           # literal ast id -> signed key
        self.learned = {}          # signed key (infeasible literal) -> [frozenset(signed keys)]
        self.raw_done = {}
        self.raw_keep = {}         # id -> lemma, never cleared (keeps ids stable)
        self.gen = 0
        self.n_defs = 0
        self.stats = Stats()
        self.work = []
        self.max_paths = max_paths
        self.max_seconds = max_seconds
        self.deadline = None
        self.inconclusive = []
        self._n_inconclusive = 0
        self.truncated = False
        self.logic = logic
        self.timeout_ms = timeout_ms
        self.solver = z3.SolverFor(logic) if logic else z3.Solver()
        self.solver.set("timeout", timeout_ms)
        self.ctx_ref = self.solver.ctx.ref()
        self.prefix_roots = prefix_roots
        self.blob_hooks = []
        self.n_forks = 0

    def proxy(self, cond):
        cid = cond.get_id()
        px = self.proxies.get(cid)
        if px is None:
            px = Proxy()
            px.cond = cond
            px.k = len(self.by_key)
            px.b = z3.Bool("__b%d" % px.k)
            px.nb = z3.Not(px.b)
            px.b_ast = px.b.as_ast()
            px.nb_ast = px.nb.as_ast()
            px.gen = -1
            self.proxies[cid] = px
            self.by_key.append(px)
            self.by_ast[px.b.get_id()] = px.k + 1
            self.by_ast[px.nb.get_id()] = -(px.k + 1)
        if px.gen != self.gen:
            self.register(px)
        return px

    def register(self, px):
        if px.gen != self.gen:
            _assert(self.solver, px.b == px.cond)
            px.gen = self.gen
            self.n_defs += 1

    def core_keys(self, other_ast):
        """signed keys of the path literals in the last unsat core (without `other`)"""
        try:
            core = self.solver.unsat_core()
        except z3.Z3Exception:
            return None
        out = []
        for e in core:
            k = self.by_ast.get(e.get_id())
            if k is None:
                return None
            out.append(k)
        return frozenset(out) - frozenset([self.by_ast.get(z3.Z3_get_ast_id(self.ctx_ref, other_ast))])

    def export_keys(self, keys):
        """portable form of a literal list (for another process): serialized conditions"""
        return [(self.by_key[abs(k) - 1].cond.serialize(), k > 0) for k in keys]

    def import_keys(self, items):
        out = []
        for s, pol in items:
            cond = z3.deserialize(s)
            px = self.proxy(cond)
            out.append(px.k + 1 if pol else -(px.k + 1))
        return out

    def reset_solver(self):
        self.solver = z3.SolverFor(self.logic) if self.logic else z3.Solver()
        self.solver.set("timeout", self.timeout_ms)
        self.gen += 1
        self.n_defs = 0
        self.raw_done = {}

    def push_work(self, keys, model, raw_ok=None):
        self.work.append((keys, model, raw_ok))

    def note_inconclusive(self, why):
        if len(self.inconclusive) < 50:
            self.inconclusive.append(why)
        else:
            self.inconclusive[-1] = "... (more)"
        self._n_inconclusive += 1

    @property
    def n_inconclusive(self):
        return self._n_inconclusive

    def run(self):
        global CUR
        t0 = time.time()
        if self.max_seconds is not None:
            self.deadline = t0 + self.max_seconds
        if self.prefix_roots:
            # imported lazily (deserializing thousands of literal lists up front can take minutes)
            self.work = [(_Raw(p), None, None) for p in reversed(self.prefix_roots)]
        else:
            self.work = [([], None, None)]
        while self.work:
            if self.max_paths is not None and self.stats.paths >= self.max_paths:
                self.truncated = True
                break
            if self.deadline is not None and time.time() > self.deadline:
                self.truncated = True
                break
            if self.stats.paths % 50 == 0 and _rss_mb() > self.max_rss_mb:
                self.truncated = True
                self.note_inconclusive("memory guard: process above %d MB" % self.max_rss_mb)
                break
            if self.yield_after is not None and time.time() - t0 > self.yield_after and len(self.work) >= 2:
                # hand the queued sub-trees back to the scheduler (work sharing between processes)
                for keys, _m, _r in self.work:
                    self.deferred.append(keys.items if isinstance(keys, _Raw) else self.export_keys(keys))
                self.work = []
                break
            keys, model, raw_ok = self.work.pop()
            if isinstance(keys, _Raw):
                keys = self.import_keys(keys.items)
            self.stats.max_prefix = max(self.stats.max_prefix, len(keys))
            if self.n_defs > self.max_defs:
                self.reset_solver()
            st = PathState(self, keys, model, raw_ok)
            CUR = st
            try:
                self.stats.paths += 1
                self.fn(st)
            except Deferred:
                self.stats.paths -= 1
            except PathCut as c:
                self.stats.paths_cut += 1
                self.stats.cut_reasons[c.reason] = self.stats.cut_reasons.get(c.reason, 0) + 1
            except Unsupported as u:
                k = str(u.what)[:200]
                self.stats.unsupported[k] = self.stats.unsupported.get(k, 0) + 1
                self.note_inconclusive("unsupported: " + k)
            except SolverUnknown:
                self.note_inconclusive("solver unknown")
            except Truncated:
                self.truncated = True
                break
        if self.truncated:
            self.note_inconclusive("truncated: %d queued paths not explored" % len(self.work))
        self.wall = time.time() - t0
        return self
