"""pysx core: path state, forking by decision-prefix re-execution, z3 plumbing.

One `Explorer` explores every feasible path of a harness function.  A path is
identified by its list of boolean decisions; a queued path is re-executed from
the start following its decision prefix (no solver calls inside the prefix) and
continues with fresh decisions.  Every fresh decision costs one solver query:
the side satisfied by the path's current model is feasible for free, the other
side is checked with z3 and queued (with its model) when satisfiable.
"""
import os
import pickle
import sys
import time
import z3


# ---------------------------------------------------------------------------
# job tokens shared by every process of a check (GNU-make style jobserver)
_JOBS = None


def jobserver_init(n_tokens):
    """create the token pipe (call once, before worker processes are forked)"""
    global _JOBS
    r, w = os.pipe()
    os.set_blocking(r, False)
    os.write(w, b"x" * max(0, n_tokens))
    _JOBS = (r, w)


def jobserver_try_acquire():
    if _JOBS is None:
        return False
    try:
        return len(os.read(_JOBS[0], 1)) == 1
    except (BlockingIOError, InterruptedError):
        return False


def jobserver_acquire_blocking():
    if _JOBS is None:
        return False
    import select
    while True:
        select.select([_JOBS[0]], [], [])
        if jobserver_try_acquire():
            return True


def jobserver_release():
    if _JOBS is not None:
        os.write(_JOBS[1], b"x")

CHAR_BITS = 21
BYTE_BITS = 8
INT_BITS = 32


class EngineSignal(BaseException):
    """Engine control flow; never caught by interpreted `except Exception`."""


class PathCut(EngineSignal):
    """An assumption of the harness excluded this path (counted, not an error)."""

    def __init__(self, reason):
        self.reason = reason


class Unsupported(EngineSignal):
    """The interpreter met a construct it does not model: path is inconclusive."""

    def __init__(self, what):
        self.what = what

    def __str__(self):
        return "Unsupported(%s)" % (self.what,)


class SolverUnknown(EngineSignal):
    pass


class Truncated(EngineSignal):
    """time budget exhausted / stop requested: the rest of this path is not explored"""


class Deferred(EngineSignal):
    """Path handed over to another work item at the split depth."""


class Stats(object):
    def __init__(self):
        self.paths = 0
        self.paths_cut = 0
        self.cut_reasons = {}
        self.unsupported = {}
        self.decisions = 0
        self.queries = 0
        self.solver_s = 0.0
        self.unknown = 0
        self.checks = 0          # assertion obligations discharged (unsat)
        self.validated = 0       # paths whose model was replayed natively and agreed
        self.spurious = 0
        self.max_prefix = 0
        self.learned_hits = 0
        self.child_crashes = 0

    def merge(self, o):
        for k in ("paths", "paths_cut", "decisions", "queries", "solver_s", "unknown",
                  "checks", "validated", "spurious", "learned_hits", "child_crashes"):
            setattr(self, k, getattr(self, k) + getattr(o, k))
        self.max_prefix = max(self.max_prefix, o.max_prefix)
        for d, od in ((self.cut_reasons, o.cut_reasons), (self.unsupported, o.unsupported)):
            for k, v in od.items():
                d[k] = d.get(k, 0) + v

    def as_dict(self):
        return dict(self.__dict__)


_CHARVARS = {}
CUR = None  # PathState of the path being executed (one explorer per process)


def cur():
    return CUR


def _assert(solver, e):
    z3.Z3_solver_assert(solver.ctx.ref(), solver.solver, e.as_ast())


def is_sym_bool(v):
    return isinstance(v, z3.BoolRef)


def z3_true(v):
    return z3.is_true(v)


class Proxy(object):
    __slots__ = ("cond", "b", "nb", "b_ast", "nb_ast", "k", "gen")


class PathState(object):
    """State of the path being executed.  Created by Explorer for each path.

    The path condition is a list of literals: every distinct branch condition gets a
    Boolean proxy (b <=> cond, asserted once, permanently) and the solver is always
    queried under assumptions, never with push/pop.  Unsat cores of "other side
    infeasible" queries are kept as learned implications (core => decision) and reused
    on later paths, so most implied conditions cost no query at all."""

    def __init__(self, explorer, prefix, model, raw_ok=0):
        self.ex = explorer
        self.prefix = prefix
        self.pos = 0
        self.decisions = []
        self.model = model          # z3 model satisfying the prefix (None for root)
        self.model_valid = model is not None
        self.created = {}           # id -> obj for objects created on this path
        self.inputs = {}            # name -> z3 var (harness inputs, for concretisation)
        self.depth = 0              # interpreted call depth
        self.n_raw = 0
        self.raw_ok = raw_ok
        self.decided = {}
        self.memo = {}
        self.lits = []              # assumption literals (z3 ast handles) of the path condition
        self.litset = set()         # signed proxy keys: k+1 for b_k, -(k+1) for not b_k

    @property
    def solver(self):
        return self.ex.solver

    # -- symbolic inputs ------------------------------------------------
    def bv(self, name, bits):
        v = self.inputs.get(name)
        if v is None:
            v = z3.BitVec(name, bits)
            self.inputs[name] = v
        return v

    def char_var(self, name, domain=None):
        """A symbolic code point: any scalar value except surrogates, or within
        `domain` (list of (lo, hi) ranges) when given."""
        key = (name, None if domain is None else tuple(domain))
        ent = _CHARVARS.get(key)
        if ent is None:
            v = z3.BitVec(name, CHAR_BITS)
            if domain is None:
                c = z3.And(z3.ULE(v, 0x10FFFF), z3.Or(z3.ULT(v, 0xD800), z3.UGT(v, 0xDFFF)))
            else:
                c = z3.Or([z3.And(z3.ULE(lo, v), z3.ULE(v, hi)) if lo != hi else v == lo
                           for lo, hi in domain])
            ent = (v, c)
            _CHARVARS[key] = ent
        v, c = ent
        if name not in self.inputs:
            self.inputs[name] = v
            self.assume_raw(c)
        return v

    def byte_var(self, name):
        return self.bv(name, BYTE_BITS)

    def bool_var(self, name):
        v = self.inputs.get(name)
        if v is None:
            v = z3.Bool(name)
            self.inputs[name] = v
        return v

    def int_var(self, name, lo, hi):
        v = self.bv(name, INT_BITS)
        self.assume_raw(z3.And(z3.ULE(lo, v), z3.ULE(v, hi)))
        return v

    # -- constraints ----------------------------------------------------
    def assume_raw(self, cond):
        """A constraint that defines the input domain: it only mentions input variables
        and is the same on every path, so it is asserted once, permanently."""
        ex = self.ex
        cid = cond.get_id()
        if cid not in ex.raw_done:
            ex.raw_done[cid] = cond
            _assert(self.solver, cond)
        self.n_raw += 1
        if self.n_raw <= self.raw_ok:
            return      # already satisfied by the model stored with this prefix
        if self.model_valid:
            if not z3.is_true(self.model.eval(cond, model_completion=True)):
                self.model_valid = False

    def assume(self, cond, reason="assume"):
        """Harness/model assumption: paths violating it are cut (and counted)."""
        if cond is True:
            return
        if cond is False:
            raise PathCut(reason)
        if not self.branch(cond):
            raise PathCut(reason)

    def _ensure_model(self):
        if not self.model_valid:
            r = self._check()
            if r == z3.sat:
                self.model = self.solver.model()
                self.model_valid = True
            elif r == z3.unsat:
                raise PathCut("infeasible")
            else:
                raise SolverUnknown()

    def _check(self, *extra_asts):
        """check PC literals + extra literal handles"""
        ex = self.ex
        t = time.time()
        al = self.lits + list(extra_asts)
        n = len(al)
        arr = (z3.Ast * n)(*al)
        r = z3.Z3_solver_check_assumptions(ex.ctx_ref, self.solver.solver, n, arr)
        ex.stats.solver_s += time.time() - t
        ex.stats.queries += 1
        if r == 1:
            return z3.sat
        if r == -1:
            return z3.unsat
        ex.stats.unknown += 1
        return z3.unknown

    def _add_lit(self, px, d):
        self.lits.append(px.b_ast if d else px.nb_ast)
        self.litset.add(px.k + 1 if d else -(px.k + 1))

    def branch(self, cond):
        """Decide a symbolic condition on this path; queue the other side."""
        if cond is True or cond is False:
            return cond
        cid = cond.get_id()
        ent = self.decided.get(cid)
        if ent is not None:
            return ent[1]
        d = self._branch(cond)
        self.decided[cid] = (cond, d)
        return d

    def _branch(self, cond):
        ex = self.ex
        if not isinstance(cond, z3.BoolRef):
            raise TypeError("branch on %r" % (cond,))
        px = ex.proxy(cond)
        if self.pos < len(self.prefix):
            d = self.prefix[self.pos]
            self._add_lit(px, d)
            self.pos += 1
            self.decisions.append(d)
            return d
        st = ex.stats
        dd = ex.defer_depth
        if dd is not None and len(self.decisions) >= dd:
            ex.deferred.append(list(self.decisions))
            raise Deferred()
        st.decisions += 1
        if ex.deadline is not None and time.time() > ex.deadline:
            raise Truncated()
        if ex.stop_flag:
            raise Truncated()
        # learned implications: core (subset of the path literals) => this side infeasible
        ls = self.litset
        for pol in (True, False):
            cores = ex.learned.get(px.k + 1 if pol else -(px.k + 1))
            if cores:
                for core in cores:
                    if core <= ls:
                        d = not pol
                        st.learned_hits += 1
                        self._add_lit(px, d)
                        self.decisions.append(d)
                        self.pos += 1
                        return d
        self._ensure_model()
        mv = self.model.eval(cond, model_completion=True)
        if z3.is_true(mv):
            d = True
        elif z3.is_false(mv):
            d = False
        else:
            d = self._check(px.b_ast) == z3.sat
            self.model_valid = False
        other_ast = px.nb_ast if d else px.b_ast
        r = self._check(other_ast)
        if r == z3.sat:
            if ex.fork_mode:
                m2 = self.solver.model()
                if ex.fork_child():
                    # child process: explores the other side from here on
                    d = not d
                    self.model = m2
                    self.model_valid = True
            else:
                ex.push_work(self.decisions + [not d], self.solver.model(), self.n_raw)
        elif r == z3.unsat:
            core = ex.core_keys(other_ast)
            if core is not None:
                key = -(px.k + 1) if d else (px.k + 1)
                ex.learned.setdefault(key, []).append(core)
        else:
            ex.note_inconclusive("unknown at branch")
        self._add_lit(px, d)
        self.decisions.append(d)
        self.pos += 1
        return d

    # -- end-of-path queries ---------------------------------------------
    def sat_model(self, *extra):
        """Is PC ∧ extra satisfiable?  Returns (status, model|None)."""
        asts = []
        keep = []
        for e in extra:
            px = self.ex.proxy(e)
            keep.append(px)
            asts.append(px.b_ast)
        r = self._check(*asts)
        m = self.solver.model() if r == z3.sat else None
        return r, m

    def current_model(self):
        self._ensure_model()
        return self.model


class Explorer(object):
    def __init__(self, fn, timeout_ms=60000, max_paths=None, max_seconds=None, logic=__import__("os").environ.get("PYSX_LOGIC", "QF_BV"),
                 prefix_roots=None, defer_depth=None):
        self.fn = fn
        self.defer_depth = defer_depth
        self.deferred = []
        self.max_defs = int(__import__("os").environ.get("PYSX_MAX_DEFS", "200"))
        self.proxies = {}          # cond ast id -> Proxy
        self.by_ast = {}           # literal ast id -> signed key
        self.learned = {}          # signed key (infeasible literal) -> [frozenset(signed keys)]
        self.raw_done = {}
        self.gen = 0
        self.n_defs = 0
        self.stats = Stats()
        self.work = []
        self.max_paths = max_paths
        self.max_seconds = max_seconds
        self.inconclusive = []
        self.truncated = False
        self.logic = logic
        self.timeout_ms = timeout_ms
        self.solver = z3.SolverFor(logic) if logic else z3.Solver()
        self.solver.set("timeout", timeout_ms)
        self.ctx_ref = self.solver.ctx.ref()
        self.prefix_roots = prefix_roots
        self.fork_mode = os.environ.get("PYSX_FORK", "0") == "1" and not prefix_roots and defer_depth is None
        self.is_child = False
        self.out_fd = None
        self.children = []         # concurrent children still running: (pid, read fd)
        self.holds_token = False
        self.deadline = None
        self.stop_flag = False
        self.blob_hooks = []       # objects with reset_in_child() / dump() / merge(data)
        self.n_forks = 0

    # -- fork-based exploration -------------------------------------------
    def fork_child(self):
        """Fork at a two-sided branch.  Returns True in the child.  The child runs
        concurrently when a job token is available, else the parent waits for it."""
        rfd, wfd = os.pipe()
        token = jobserver_try_acquire()
        sys.stdout.flush()
        sys.stderr.flush()
        pid = os.fork()
        if pid == 0:
            os.close(rfd)
            self.is_child = True
            self.out_fd = wfd
            self.children = []
            self.holds_token = token
            self.stats = Stats()
            self.inconclusive = []
            self._n_inconclusive = 0
            self.truncated = False
            for h in self.blob_hooks:
                h.reset_in_child()
            return True
        os.close(wfd)
        self.n_forks += 1
        if token:
            self.children.append((pid, rfd))
            if len(self.children) > 200:
                self._collect(*self.children.pop(0))
        else:
            self._collect(pid, rfd)
        return False

    def _collect(self, pid, rfd):
        data = b""
        with os.fdopen(rfd, "rb") as f:
            data = f.read()
        os.waitpid(pid, 0)
        if not data:
            self.note_inconclusive("a forked explorer died without reporting (pid %d)" % pid)
            self.stats.child_crashes = getattr(self.stats, "child_crashes", 0) + 1
            return
        blob = pickle.loads(data)
        self.stats.merge(blob["stats"])
        for w in blob["inconclusive"]:
            self.note_inconclusive(w)
        self._n_inconclusive = self.n_inconclusive + blob["n_inconclusive"] - len(blob["inconclusive"])
        self.truncated = self.truncated or blob["truncated"]
        if blob["stop"]:
            self.stop_flag = True
        for h, d in zip(self.blob_hooks, blob["hooks"]):
            h.merge(d)

    def _finish_process(self):
        while self.children:
            self._collect(*self.children.pop())
        if self.is_child:
            try:
                blob = {"stats": self.stats, "inconclusive": self.inconclusive, "n_inconclusive": self.n_inconclusive,
                        "truncated": self.truncated, "stop": self.stop_flag, "hooks": [h.dump() for h in self.blob_hooks]}
                data = pickle.dumps(blob)
                with os.fdopen(self.out_fd, "wb") as f:
                    f.write(data)
            finally:
                if self.holds_token:
                    jobserver_release()
                os._exit(0)

    def proxy(self, cond):
        cid = cond.get_id()
        px = self.proxies.get(cid)
        if px is None:
            px = Proxy()
            px.cond = cond
            px.k = len(self.proxies)
            px.b = z3.Bool("__b%d" % px.k)
            px.nb = z3.Not(px.b)
            px.b_ast = px.b.as_ast()
            px.nb_ast = px.nb.as_ast()
            px.gen = -1
            self.proxies[cid] = px
            self.by_ast[px.b.get_id()] = px.k + 1
            self.by_ast[px.nb.get_id()] = -(px.k + 1)
        if px.gen != self.gen:
            _assert(self.solver, px.b == cond)
            px.gen = self.gen
            self.n_defs += 1
        return px

    def core_keys(self, other_ast):
        """signed keys of the path literals in the last unsat core (without `other`)"""
        try:
            core = self.solver.unsat_core()
        except z3.Z3Exception:
            return None
        out = []
        for e in core:
            k = self.by_ast.get(e.get_id())
            if k is None:
                return None
            out.append(k)
        return frozenset(out) - frozenset([self.by_ast_handle(other_ast)])

    def by_ast_handle(self, ast_handle):
        return self.by_ast.get(z3.Z3_get_ast_id(self.ctx_ref, ast_handle))

    def reset_solver(self):
        self.solver = z3.SolverFor(self.logic) if self.logic else z3.Solver()
        self.solver.set("timeout", self.timeout_ms)
        self.gen += 1
        self.n_defs = 0
        self.raw_done = {}

    def push_work(self, prefix, model, n_raw=0):
        self.work.append((prefix, model, n_raw))

    def note_inconclusive(self, why):
        if len(self.inconclusive) < 50:
            self.inconclusive.append(why)
        else:
            self.inconclusive[-1] = "... (more)"
        self._n_inconclusive = getattr(self, "_n_inconclusive", 0) + 1

    @property
    def n_inconclusive(self):
        return getattr(self, "_n_inconclusive", 0)

    def run(self):
        if self.fork_mode:
            return self.run_fork()
        return self.run_replay()

    def run_fork(self):
        global CUR
        t0 = time.time()
        if self.max_seconds is not None:
            self.deadline = t0 + self.max_seconds
        st = PathState(self, [], None, 0)
        CUR = st
        stop_exc = None
        try:
            try:
                self.stats.paths += 1
                self.fn(st)
            except PathCut as c:
                self.stats.paths_cut += 1
                self.stats.cut_reasons[c.reason] = self.stats.cut_reasons.get(c.reason, 0) + 1
            except Unsupported as u:
                k = str(u.what)[:200]
                self.stats.unsupported[k] = self.stats.unsupported.get(k, 0) + 1
                self.note_inconclusive("unsupported: " + k)
            except SolverUnknown:
                self.note_inconclusive("solver unknown")
            except Truncated:
                self.truncated = True
                self.note_inconclusive("truncated by time budget / stop")
            except EngineSignal as e:
                # harness-level stop (e.g. enough violations): remember, stop the siblings
                self.stop_flag = True
                stop_exc = e
            except BaseException:
                if self.is_child:
                    import traceback
                    self.note_inconclusive("exception in forked explorer: " + traceback.format_exc()[-600:])
                    self.stats.child_crashes = getattr(self.stats, "child_crashes", 0) + 1
                else:
                    raise
        finally:
            self._finish_process()      # children never return from here
        self.wall = time.time() - t0
        if stop_exc is not None:
            raise stop_exc
        return self

    def run_replay(self):
        t0 = time.time()
        if self.prefix_roots:
            self.work = [(list(p), None, 0) for p in self.prefix_roots]
        else:
            self.work = [([], None, 0)]
        while self.work:
            if self.max_paths is not None and self.stats.paths >= self.max_paths:
                self.truncated = True
                break
            if self.max_seconds is not None and time.time() - t0 > self.max_seconds:
                self.truncated = True
                break
            prefix, model, raw_ok = self.work.pop()
            self.stats.max_prefix = max(self.stats.max_prefix, len(prefix))
            if self.n_defs > self.max_defs:
                self.reset_solver()
            st = PathState(self, prefix, model, raw_ok)
            global CUR
            CUR = st
            try:
                self.stats.paths += 1
                self.fn(st)
            except Deferred:
                self.stats.paths -= 1
            except PathCut as c:
                self.stats.paths_cut += 1
                self.stats.cut_reasons[c.reason] = self.stats.cut_reasons.get(c.reason, 0) + 1
            except Unsupported as u:
                k = str(u.what)[:200]
                self.stats.unsupported[k] = self.stats.unsupported.get(k, 0) + 1
                self.note_inconclusive("unsupported: " + k)
            except SolverUnknown:
                self.note_inconclusive("solver unknown")
            finally:
                pass
        if self.truncated:
            self.note_inconclusive("truncated: %d queued paths not explored" % len(self.work))
        self.wall = time.time() - t0
        return self
