"""Backtracking regex matcher over CPython's own sre parse tree, run on strings with
symbolic characters.  Every character test is a branch() on the path, so a path's
match result (incl. group positions, greedy / lazy / alternation priorities) is
exactly what CPython's matcher returns for every concrete string of that path."""
import re
from re import _parser
from re._constants import (LITERAL, NOT_LITERAL, ANY, IN, BRANCH, SUBPATTERN, MAX_REPEAT,
                           MIN_REPEAT, AT, ASSERT, ASSERT_NOT, GROUPREF, MAXREPEAT,
                           AT_BEGINNING, AT_BEGINNING_STRING, AT_END, AT_END_STRING,
                           AT_BOUNDARY, AT_NON_BOUNDARY, CATEGORY, CATEGORY_WORD)
from . import core
from .core import Unsupported
from . import chars as C
from .values import br, mk, elems, kind_of, ceq, z_or, z_and, z_not, match_at, SStr, SBytes, has_sym

_RX_CACHE = {}


def rx_for(pattern):
    r = _RX_CACHE.get(id(pattern))
    if r is None or r.pat is not pattern:
        r = Rx(pattern)
        _RX_CACHE[id(pattern)] = r
    return r


class SMatch(object):
    def __init__(self, rx, subj, kind, spans, orig):
        self.rx = rx
        self.subj = subj
        self.kind = kind
        self.spans = spans
        self.string = orig

    def _idx(self, g):
        if isinstance(g, str):
            g = self.rx.pat.groupindex[g]
        if g < 0 or g >= len(self.spans):
            raise IndexError("no such group")
        return g

    def _one(self, g, default=None):
        sp = self.spans[self._idx(g)]
        if sp is None:
            return default
        return mk(self.kind, self.subj[sp[0]:sp[1]])

    def group(self, *gs):
        if not gs:
            return self._one(0)
        if len(gs) == 1:
            return self._one(gs[0])
        return tuple(self._one(g) for g in gs)

    def __getitem__(self, g):
        return self._one(g)

    def groups(self, default=None):
        return tuple(self._one(g, default) for g in range(1, len(self.spans)))

    def span(self, g=0):
        sp = self.spans[self._idx(g)]
        return (-1, -1) if sp is None else sp

    def start(self, g=0):
        return self.span(g)[0]

    def end(self, g=0):
        return self.span(g)[1]

    @property
    def lastindex(self):
        raise Unsupported("match.lastindex")


class Rx(object):
    def __init__(self, pattern):
        self.pat = pattern
        self.is_bytes = isinstance(pattern.pattern, bytes)
        self.kind = "bytes" if self.is_bytes else "str"
        self.flags = pattern.flags
        if self.flags & (re.MULTILINE | re.VERBOSE | re.LOCALE):
            if self.flags & (re.MULTILINE | re.LOCALE):
                raise Unsupported("regex flags %r" % self.flags)
        self.tree = _parser.parse(pattern.pattern, pattern.flags)
        self.items = list(self.tree)
        self.ngroups = pattern.groups
        self.icase = bool(self.flags & re.IGNORECASE)
        self._word = None

    # -- character tests -------------------------------------------------
    def char_cond(self, op, av, ch):
        if op is LITERAL and not self.icase:
            return ceq(ch, av)
        if op is NOT_LITERAL and not self.icase:
            return z_not(ceq(ch, av))
        return C.regex_node_set((op, av), self.flags, self.is_bytes).cond(ch)

    def word_set(self):
        if self._word is None:
            self._word = C.regex_node_set((IN, [(CATEGORY, CATEGORY_WORD)]), self.flags & ~re.IGNORECASE,
                                          self.is_bytes)
        return self._word

    # -- matcher -----------------------------------------------------------
    def m_seq(self, items, i, pos, caps, k):
        if i == len(items):
            return k(pos, caps)
        op, av = items[i]
        s = self.s
        n = self.n
        if op is LITERAL or op is IN or op is NOT_LITERAL or op is ANY:
            if pos >= n:
                return False
            if br(self.char_cond(op, av, s[pos])):
                return self.m_seq(items, i + 1, pos + 1, caps, k)
            return False
        nxt = lambda p, c: self.m_seq(items, i + 1, p, c, k)
        if op is SUBPATTERN:
            g, addf, delf, p = av
            if addf or delf:
                raise Unsupported("inline regex flags")
            if g is None:
                return self.m_seq(list(p), 0, pos, caps, nxt)

            def k2(p2, c2):
                c3 = c2[:g] + ((pos, p2),) + c2[g + 1:]
                return nxt(p2, c3)
            return self.m_seq(list(p), 0, pos, caps, k2)
        if op is BRANCH:
            for alt in av[1]:
                if self.m_seq(list(alt), 0, pos, caps, nxt):
                    return True
            return False
        if op is MAX_REPEAT or op is MIN_REPEAT:
            lo, hi, p = av
            body = list(p)
            greedy = op is MAX_REPEAT
            # fast path: single-character body, greedy
            single = len(body) == 1 and body[0][0] in (LITERAL, IN, NOT_LITERAL, ANY)
            if single and greedy:
                bop, bav = body[0]
                cnt = 0
                q = pos
                while (hi is MAXREPEAT or cnt < hi) and q < n and br(self.char_cond(bop, bav, s[q])):
                    q += 1
                    cnt += 1
                while cnt >= lo:
                    if nxt(pos + cnt, caps):
                        return True
                    cnt -= 1
                return False

            def rep(count, ps, cs):
                if greedy:
                    if hi is MAXREPEAT or count < hi:
                        def kk(p2, c2):
                            if p2 == ps and count >= lo:
                                return False
                            return rep(count + 1, p2, c2)
                        if self.m_seq(body, 0, ps, cs, kk):
                            return True
                    if count >= lo:
                        return nxt(ps, cs)
                    return False
                else:
                    if count >= lo and nxt(ps, cs):
                        return True
                    if hi is MAXREPEAT or count < hi:
                        def kk(p2, c2):
                            if p2 == ps and count >= lo:
                                return False
                            return rep(count + 1, p2, c2)
                        return self.m_seq(body, 0, ps, cs, kk)
                    return False
            return rep(0, pos, caps)
        if op is AT:
            if av is AT_BEGINNING or av is AT_BEGINNING_STRING:
                ok = pos == 0
            elif av is AT_END_STRING:
                ok = pos == n
            elif av is AT_END:
                if pos == n:
                    ok = True
                elif pos == n - 1:
                    ok = br(ceq(s[pos], 10))
                else:
                    ok = False
            elif av is AT_BOUNDARY or av is AT_NON_BOUNDARY:
                w = self.word_set()
                if n == 0:
                    b = False
                else:
                    a1 = br(w.cond(s[pos - 1])) if pos > 0 else False
                    a2 = br(w.cond(s[pos])) if pos < n else False
                    b = a1 != a2
                ok = b if av is AT_BOUNDARY else not b
            else:
                raise Unsupported("regex AT %r" % (av,))
            return nxt(pos, caps) if ok else False
        if op is ASSERT or op is ASSERT_NOT:
            direction, p = av
            body = list(p)
            got = []
            if direction >= 0:
                ok = self.m_seq(body, 0, pos, caps, lambda p2, c2: (got.append(c2), True)[1])
            else:
                lo, hi = p.getwidth()
                if lo != hi:
                    raise Unsupported("variable-width look-behind")
                st = pos - lo
                if st < 0:
                    ok = False
                else:
                    ok = self.m_seq(body, 0, st, caps, lambda p2, c2: p2 == pos and (got.append(c2), True)[1])
            if op is ASSERT:
                return nxt(pos, got[0]) if ok else False
            return False if ok else nxt(pos, caps)
        if op is GROUPREF:
            sp = caps[av]
            if sp is None:
                return False
            sub = s[sp[0]:sp[1]]
            if self.icase:
                raise Unsupported("case-insensitive back-reference")
            if pos + len(sub) > n:
                return False
            if br(match_at(s, pos, sub)):
                return nxt(pos + len(sub), caps)
            return False
        raise Unsupported("regex op %r" % (op,))

    def _try(self, start, full, must_advance):
        res = []

        def final(p, c):
            if full and p != self.n:
                return False
            if must_advance and p == start:
                return False
            res.append((p, c))
            return True
        caps0 = (None,) * (self.ngroups + 1)
        if self.m_seq(self.items, 0, start, caps0, final):
            p, c = res[0]
            return c[:0] + ((start, p),) + c[1:]
        return None

    def _prep(self, subj, endpos=None):
        if kind_of(subj) != self.kind:
            raise TypeError("cannot use a %s pattern on a %s-like object" % (self.kind, kind_of(subj)))
        self.s = elems(subj)
        self.n = len(self.s) if endpos is None else min(endpos, len(self.s))
        self.orig = subj

    def _mk(self, spans):
        return SMatch(self, self.s, self.kind, spans, self.orig)

    def match(self, subj, pos=0, endpos=None):
        self._prep(subj, endpos)
        sp = self._try(pos, False, False)
        return self._mk(sp) if sp else None

    def fullmatch(self, subj, pos=0, endpos=None):
        self._prep(subj, endpos)
        sp = self._try(pos, True, False)
        return self._mk(sp) if sp else None

    def _search_from(self, start, must_advance):
        for st in range(start, self.n + 1):
            sp = self._try(st, False, must_advance and st == start)
            if sp:
                return sp
        return None

    def search(self, subj, pos=0, endpos=None):
        self._prep(subj, endpos)
        sp = self._search_from(pos, False)
        return self._mk(sp) if sp else None

    def _scan(self, subj, limit=0):
        self._prep(subj)
        out = []
        start = 0
        must = False
        while limit == 0 or len(out) < limit:
            if start > self.n:
                break
            sp = self._search_from(start, must)
            if sp is None:
                break
            out.append(sp)
            b, e = sp[0]
            must = (e == b)
            start = e
        return out

    def finditer(self, subj):
        spans = self._scan(subj)
        s, orig = self.s, self.orig
        return [SMatch(self, s, self.kind, sp, orig) for sp in spans]

    def findall(self, subj):
        ms = self.finditer(subj)
        if self.ngroups == 0:
            return [m.group(0) for m in ms]
        if self.ngroups == 1:
            return [m._one(1, mk(self.kind, [])) for m in ms]
        return [m.groups(mk(self.kind, [])) for m in ms]

    def split(self, subj, maxsplit=0):
        spans = self._scan(subj, maxsplit)
        s = self.s
        out = []
        last = 0
        for sp in spans:
            b, e = sp[0]
            out.append(mk(self.kind, s[last:b]))
            for g in range(1, self.ngroups + 1):
                out.append(None if sp[g] is None else mk(self.kind, s[sp[g][0]:sp[g][1]]))
            last = e
        out.append(mk(self.kind, s[last:]))
        return out

    def sub(self, repl, subj, count=0, caller=None):
        if not callable(repl) and not hasattr(repl, "call"):
            rk = kind_of(repl)
            if rk != self.kind:
                raise TypeError("bad replacement type")
            rel = elems(repl)
            bs = 92
            if has_sym(repl):
                core.CUR.assume(z_not(z_or([ceq(c, bs) for c in rel])), "backslash in symbolic regex replacement")
            elif bs in rel:
                raise Unsupported("regex replacement template with backslash")
        spans = self._scan(subj, count)
        s, orig = self.s, self.orig
        out = []
        last = 0
        for sp in spans:
            b, e = sp[0]
            out.extend(s[last:b])
            if callable(repl) or hasattr(repl, "call"):
                m = SMatch(self, s, self.kind, sp, orig)
                r = caller(repl, (m,), {}) if caller is not None else repl(m)
                out.extend(elems(r))
            else:
                out.extend(rel)
            last = e
        out.extend(s[last:])
        return mk(self.kind, out)
