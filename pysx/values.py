"""Symbolic values: strings / bytes of concrete length with symbolic elements, 32-bit
symbolic ints, dicts and sets with symbolic keys.  Every shape-changing operation
forks through core.cur().branch(); element-wise operations build z3 terms."""
import z3
from . import core
from .core import Unsupported, PathCut, CHAR_BITS, BYTE_BITS, INT_BITS
from . import chars as C


def br(cond):
    return core.CUR.branch(cond)


# ---------------------------------------------------------------------------
# sequences
class SSeq(object):
    __slots__ = ("ch",)
    kind = None

    def __init__(self, ch):
        self.ch = tuple(ch)

    def __len__(self):
        return len(self.ch)

    def __eq__(self, other):
        raise Unsupported("native == on a symbolic string")

    def __ne__(self, other):
        raise Unsupported("native != on a symbolic string")

    def __repr__(self):
        return "<%s %s>" % (type(self).__name__,
                            "".join(chr(c) if isinstance(c, int) and 32 <= c < 127 else "?" for c in self.ch))

    __hash__ = None


class SStr(SSeq):
    __slots__ = ()
    kind = "str"


class SBytes(SSeq):
    __slots__ = ()
    kind = "bytes"


class SByteArray(object):
    """bytearray with (possibly) symbolic elements; mutable."""
    __slots__ = ("ch",)
    kind = "bytes"

    def __init__(self, ch=()):
        self.ch = list(ch)

    def __len__(self):
        return len(self.ch)

    __hash__ = None


class SInt(object):
    """Symbolic non-negative int held in a 32-bit vector (values are bounded by
    construction: <= 9 decimal digits, small counters), so no wrap-around.
    `digits`: the decimal digit characters it was parsed from, when it came from int(str)."""
    __slots__ = ("e", "digits")

    def __init__(self, e, digits=None):
        self.e = e
        self.digits = digits

    __hash__ = None


SEQ_TYPES = (SStr, SBytes, SByteArray)
SYM_TYPES = (SStr, SBytes, SByteArray, SInt, z3.BoolRef)


def kind_of(x):
    if isinstance(x, str):
        return "str"
    if isinstance(x, (bytes, bytearray)):
        return "bytes"
    if isinstance(x, SEQ_TYPES):
        return x.kind
    return None


def elems(x):
    if isinstance(x, str):
        return [ord(c) for c in x]
    if isinstance(x, (bytes, bytearray)):
        return list(x)
    return list(x.ch)


def mk(kind, chs):
    chs = list(chs)
    for c in chs:
        if not isinstance(c, int):
            return SStr(chs) if kind == "str" else SBytes(chs)
    if kind == "str":
        return "".join(map(chr, chs))
    return bytes(chs)


def bits_of(kind):
    return CHAR_BITS if kind == "str" else BYTE_BITS


def ceq(a, b):
    if isinstance(a, int):
        if isinstance(b, int):
            return a == b
        return b == a
    return a == b


def z_and(parts):
    out = []
    for p in parts:
        if p is True:
            continue
        if p is False:
            return False
        out.append(p)
    if not out:
        return True
    return out[0] if len(out) == 1 else z3.And(out)


def z_or(parts):
    out = []
    for p in parts:
        if p is False:
            continue
        if p is True:
            return True
        out.append(p)
    if not out:
        return False
    return out[0] if len(out) == 1 else z3.Or(out)


def z_not(p):
    if p is True:
        return False
    if p is False:
        return True
    return z3.Not(p)


def z_ite(c, a, b):
    if c is True:
        return a
    if c is False:
        return b
    return z3.If(c, a, b)


def seq_eq(a, b):
    """a, b: element lists -> bool | z3 Bool"""
    if len(a) != len(b):
        return False
    return z_and([ceq(x, y) for x, y in zip(a, b)])


def match_at(h, i, n):
    if i < 0 or i + len(n) > len(h):
        return False
    return z_and([ceq(h[i + j], n[j]) for j in range(len(n))])


def seq_lt(a, b, bits):
    """lexicographic a < b"""
    def tobv(x):
        return z3.BitVecVal(x, bits) if isinstance(x, int) else x
    res = len(a) < len(b) if len(a) != len(b) and min(len(a), len(b)) == 0 else None
    n = min(len(a), len(b))
    tail = len(a) < len(b)  # all equal on common prefix
    r = tail
    for i in range(n - 1, -1, -1):
        x, y = a[i], b[i]
        if isinstance(x, int) and isinstance(y, int):
            if x < y:
                r = True
            elif x > y:
                r = False
            # equal: keep r
        else:
            r = z_or([z3.ULT(tobv(x), tobv(y)), z_and([ceq(x, y), r])])
    return r


def contains(h, n):
    if len(n) == 0:
        return True
    return z_or([match_at(h, i, n) for i in range(len(h) - len(n) + 1)])


def find(h, n, start=0, end=None):
    ln = len(h)
    if end is None or end > ln:
        end = ln
    if start < 0:
        start = max(0, ln + start)
    if end < 0:
        end = max(0, ln + end)
    for i in range(start, end - len(n) + 1):
        if br(match_at(h, i, n)):
            return i
    return -1


def rfind(h, n, start=0, end=None):
    ln = len(h)
    if end is None or end > ln:
        end = ln
    for i in range(end - len(n), start - 1, -1):
        if br(match_at(h, i, n)):
            return i
    return -1


def count(h, n):
    if len(n) == 0:
        return len(h) + 1
    i = 0
    k = 0
    while i <= len(h) - len(n):
        if br(match_at(h, i, n)):
            k += 1
            i += len(n)
        else:
            i += 1
    return k


def split(kind, h, sep, maxsplit=-1):
    if len(sep) == 0:
        raise ValueError("empty separator")
    out = []
    i = 0
    last = 0
    while i <= len(h) - len(sep) and (maxsplit < 0 or len(out) < maxsplit):
        if br(match_at(h, i, sep)):
            out.append(mk(kind, h[last:i]))
            i += len(sep)
            last = i
        else:
            i += 1
    out.append(mk(kind, h[last:]))
    return out


def rsplit(kind, h, sep, maxsplit=-1):
    if len(sep) == 0:
        raise ValueError("empty separator")
    out = []
    i = len(h) - len(sep)
    last = len(h)
    while i >= 0 and (maxsplit < 0 or len(out) < maxsplit):
        if br(match_at(h, i, sep)):
            out.append(mk(kind, h[i + len(sep):last]))
            last = i
            i -= len(sep)
        else:
            i -= 1
    out.append(mk(kind, h[:last]))
    out.reverse()
    return out


def space_set(kind):
    return C.str_pred_set("isspace") if kind == "str" else C.bytes_pred_set("isspace")


def split_ws(kind, h, maxsplit=-1):
    ws = space_set(kind)
    out = []
    i = 0
    n = len(h)
    while i < n:
        while i < n and br(ws.cond(h[i])):
            i += 1
        if i >= n:
            break
        if maxsplit >= 0 and len(out) >= maxsplit:
            # rest (stripped on the right? no: str.split keeps the remainder as is except leading ws)
            j = n
            out.append(mk(kind, h[i:j]))
            return out
        j = i
        while j < n and not br(ws.cond(h[j])):
            j += 1
        out.append(mk(kind, h[i:j]))
        i = j
    return out


def strip(kind, h, chs=None, left=True, right=True):
    if chs is None:
        test = space_set(kind).cond
    else:
        chl = list(chs)
        if all(isinstance(c, int) for c in chl):
            cs = C.CharSet.of(chl)
            test = cs.cond
        else:
            def test(c):
                return z_or([ceq(c, d) for d in chl])
    a, b = 0, len(h)
    if left:
        while a < b and br(test(h[a])):
            a += 1
    if right:
        while b > a and br(test(h[b - 1])):
            b -= 1
    return mk(kind, h[a:b])


def replace(kind, h, old, new, cnt=-1):
    if len(old) == 0:
        raise Unsupported("replace with empty pattern on symbolic string")
    out = []
    i = 0
    k = 0
    while i < len(h):
        if (cnt < 0 or k < cnt) and i <= len(h) - len(old) and br(match_at(h, i, old)):
            out.extend(new)
            i += len(old)
            k += 1
        else:
            out.append(h[i])
            i += 1
    return mk(kind, out)


def case_map(kind, h, which):
    m = C.str_map(which) if kind == "str" else C.bytes_map(which)
    out = []
    for c in h:
        if isinstance(c, int):
            if c in m.multi:
                out.extend(ord(x) for x in m.multi[c])
            else:
                out.append(m.apply_int(c))
            continue
        if br(z3.ULT(c, 128)):
            # ASCII: a single small term (the path condition usually decides this test)
            bits = c.size()
            if which == "lower":
                out.append(z3.If(z3.And(z3.UGE(c, 65), z3.ULE(c, 90)), c + z3.BitVecVal(32, bits), c))
            else:
                out.append(z3.If(z3.And(z3.UGE(c, 97), z3.ULE(c, 122)), c - z3.BitVecVal(32, bits), c))
            continue
        if m.multi and br(m.multi_set.cond(c)):
            for cp, img in m.multi.items():
                if br(c == cp):
                    out.extend(ord(x) for x in img)
                    break
            else:
                raise PathCut("infeasible")
            continue
        # non-ASCII source: the few code points whose image is ASCII are split off, the
        # rest gets a fresh variable l with l == map(c) and the (valid) lemma l >= 128,
        # which keeps later comparisons with ASCII constants trivial for the solver
        to_ascii = _to_ascii_preimages(m)
        done = False
        for cp, img in to_ascii:
            if br(c == cp):
                out.append(img)
                done = True
                break
        if done:
            continue
        out.append(_mapped_var(m, c))
    return mk(kind, out)


_TOASCII = {}
_MAPVARS = {}


def _to_ascii_preimages(m):
    r = _TOASCII.get(m.name)
    if r is None:
        r = []
        for lo, hi, kind, arg in m.segs:
            for cp in range(max(lo, 128), hi + 1):
                v = m.apply_int(cp)
                if v < 128:
                    r.append((cp, v))
        _TOASCII[m.name] = r
    return r


def _mapped_var(m, c):
    key = (m.name, c.get_id())
    ent = _MAPVARS.get(key)
    if ent is None:
        l = z3.BitVec("%s(%s)" % (m.name, c.sexpr()[:40] if c.num_args() == 0 else "e%d" % len(_MAPVARS)), c.size())
        guard = z3.And([z3.UGE(c, 128), z3.Not(m.multi_set.cond(c)) if m.multi else z3.BoolVal(True)]
                       + [c != cp for cp, _ in _to_ascii_preimages(m)])
        # globally valid: it is asserted once for all paths
        ent = (c, l, z3.Implies(guard, z3.And(l == m.apply(c), z3.UGE(l, 128))))
        _MAPVARS[key] = ent
    core.CUR.assume_raw(ent[2])
    return ent[1]


def all_in(h, cs, empty=False):
    if len(h) == 0:
        return empty
    return z_and([cs.cond(c) for c in h])


ASCII = C.CharSet([(0, 0x7F)], "ascii")
DIGITS = C.CharSet([(0x30, 0x39)], "0-9")


def utf8_encode(h):
    out = []
    for c in h:
        if isinstance(c, int):
            if 0xD800 <= c <= 0xDFFF:
                raise UnicodeEncodeError("utf-8", chr(c), 0, 1, "surrogates not allowed")
            out.extend(chr(c).encode("utf-8"))
            continue
        e = lambda hi, lo: z3.Extract(hi, lo, c)
        if br(z3.ULT(c, 0x80)):
            out.append(e(7, 0))
        elif br(z3.ULT(c, 0x800)):
            out.append(z3.Concat(z3.BitVecVal(0b110, 3), e(10, 6)))
            out.append(z3.Concat(z3.BitVecVal(0b10, 2), e(5, 0)))
        elif br(z3.ULT(c, 0x10000)):
            if br(z3.And(z3.UGE(c, 0xD800), z3.ULE(c, 0xDFFF))):
                raise UnicodeEncodeError("utf-8", "\ud800", 0, 1, "surrogates not allowed")
            out.append(z3.Concat(z3.BitVecVal(0b1110, 4), e(15, 12)))
            out.append(z3.Concat(z3.BitVecVal(0b10, 2), e(11, 6)))
            out.append(z3.Concat(z3.BitVecVal(0b10, 2), e(5, 0)))
        else:
            out.append(z3.Concat(z3.BitVecVal(0b11110, 5), e(20, 18)))
            out.append(z3.Concat(z3.BitVecVal(0b10, 2), e(17, 12)))
            out.append(z3.Concat(z3.BitVecVal(0b10, 2), e(11, 6)))
            out.append(z3.Concat(z3.BitVecVal(0b10, 2), e(5, 0)))
    return mk("bytes", [simp(x) for x in out])


def simp(x):
    if isinstance(x, int):
        return x
    s = z3.simplify(x)
    if z3.is_bv_value(s):
        return s.as_long()
    return s


def simp_bool(x):
    s_ = z3.simplify(x)
    if z3.is_true(s_):
        return True
    if z3.is_false(s_):
        return False
    return s_


def _rng(b, lo, hi):
    if isinstance(b, int):
        return lo <= b <= hi
    return z3.And(z3.UGE(b, lo), z3.ULE(b, hi))


def _zx(b, bits=CHAR_BITS):
    if isinstance(b, int):
        return z3.BitVecVal(b, bits)
    return z3.ZeroExt(bits - b.size(), b)


class FakeDecodeError(object):
    """Stands for the UnicodeDecodeError handed to a codec error handler."""

    def __init__(self, obj, start, end):
        self.object = obj
        self.start = start
        self.end = end
        self.encoding = "utf-8"
        self.reason = "invalid"


def utf8_decode(h, errors="strict", handler=None):
    """CPython's UTF-8 decoder incl. its error positions (maximal valid prefix of an
    ill-formed sequence is replaced by one U+FFFD)."""
    out = []
    i = 0
    n = len(h)

    def bad(start, length):
        if handler is not None:
            repl, newpos = handler(FakeDecodeError(mk("bytes", h), start, start + length))
            if newpos != start + length:
                raise Unsupported("codec error handler that repositions")
            out.extend(elems(repl))
        elif errors == "replace":
            out.append(0xFFFD)
        elif errors == "ignore":
            pass
        else:
            raise UnicodeDecodeError("utf-8", b"", start, start + length, "invalid")

    while i < n:
        b0 = h[i]
        if br(_rng(b0, 0, 0x7F)):
            out.append(b0 if isinstance(b0, int) else simp(z3.ZeroExt(CHAR_BITS - 8, b0)))
            i += 1
            continue
        if br(z_or([_rng(b0, 0x80, 0xC1), _rng(b0, 0xF5, 0xFF)])):
            bad(i, 1)
            i += 1
            continue
        if br(_rng(b0, 0xC2, 0xDF)):
            need = 1
            lo2, hi2 = 0x80, 0xBF
        elif br(_rng(b0, 0xE0, 0xEF)):
            need = 2
            if br(ceq(b0, 0xE0)):
                lo2, hi2 = 0xA0, 0xBF
            elif br(ceq(b0, 0xED)):
                lo2, hi2 = 0x80, 0x9F
            else:
                lo2, hi2 = 0x80, 0xBF
        else:
            need = 3
            if br(ceq(b0, 0xF0)):
                lo2, hi2 = 0x90, 0xBF
            elif br(ceq(b0, 0xF4)):
                lo2, hi2 = 0x80, 0x8F
            else:
                lo2, hi2 = 0x80, 0xBF
        got = 0
        ok = True
        for k in range(1, need + 1):
            if i + k >= n:
                ok = False
                break
            bk = h[i + k]
            lo, hi = (lo2, hi2) if k == 1 else (0x80, 0xBF)
            if br(_rng(bk, lo, hi)):
                got += 1
            else:
                ok = False
                break
        if not ok:
            bad(i, 1 + got)
            i += 1 + got
            continue
        bs = [h[i + k] for k in range(need + 1)]
        if all(isinstance(b, int) for b in bs):
            out.append(ord(bytes(bs).decode("utf-8")))
        else:
            z = [_zx(b) for b in bs]
            if need == 1:
                v = ((z[0] & 0x1F) << 6) | (z[1] & 0x3F)
            elif need == 2:
                v = ((z[0] & 0x0F) << 12) | ((z[1] & 0x3F) << 6) | (z[2] & 0x3F)
            else:
                v = ((z[0] & 0x07) << 18) | ((z[1] & 0x3F) << 12) | ((z[2] & 0x3F) << 6) | (z[3] & 0x3F)
            out.append(simp(v))
        i += need + 1
    return mk("str", out)


def to_int(h):
    """int(str) for symbolic strings."""
    if len(h) == 0:
        raise ValueError("invalid literal for int() with base 10: ''")
    if len(h) > 9:
        raise Unsupported("int() of more than 9 symbolic digits")
    if br(all_in(h, DIGITS)):
        v = z3.BitVecVal(0, INT_BITS)
        for c in h:
            d = (z3.BitVecVal(c - 48, INT_BITS) if isinstance(c, int)
                 else z3.ZeroExt(INT_BITS - c.size(), c) - 48)
            v = v * 10 + d
        v = simp(v)
        return v if isinstance(v, int) else SInt(v, list(h))
    other = C.str_pred_set("isspace").ranges + C.str_pred_set("isdigit").ranges + [(43, 43), (45, 45), (95, 95)]
    maybe = C.CharSet(sorted(set(other)))
    # merge overlapping ranges conservatively: CharSet requires disjoint sorted ranges
    rs = []
    for lo, hi in sorted(other):
        if rs and lo <= rs[-1][1] + 1:
            rs[-1] = (rs[-1][0], max(rs[-1][1], hi))
        else:
            rs.append((lo, hi))
    maybe = C.CharSet(rs)
    if br(all_in(h, maybe)):
        raise Unsupported("int() of a string with signs / spaces / non-ASCII digits")
    raise ValueError("invalid literal for int() with base 10")


HEXSET = C.CharSet([(0x30, 0x39), (0x41, 0x46), (0x61, 0x66)], "hex")


def to_int_hex(h):
    """int(str, 16) for symbolic strings of plain hex digits (no prefix / sign / underscore)"""
    if len(h) == 0:
        raise ValueError("invalid literal for int() with base 16: ''")
    if len(h) > 7:
        raise Unsupported("int(s, 16) of more than 7 symbolic digits")
    if br(all_in(h, HEXSET)):
        v = z3.BitVecVal(0, INT_BITS)
        for c in h:
            if isinstance(c, int):
                d = z3.BitVecVal(int(chr(c), 16), INT_BITS)
            else:
                z = z3.ZeroExt(INT_BITS - c.size(), c)
                d = z3.If(z3.ULE(z, 0x39), z - 0x30, z3.If(z3.ULE(z, 0x46), z - 0x37, z - 0x57))
            v = v * 16 + d
        v = simp(v)
        return v if isinstance(v, int) else SInt(v)
    raise Unsupported("int(s, 16) of a string with sign / prefix / spaces / non-hex characters")


def int_to_str(v):
    """str(SInt): fork on the number of digits."""
    if v.digits is not None:
        # the int was parsed from these digits: its str() is the same digits without leading zeros
        d = v.digits
        i = 0
        while i < len(d) - 1 and br(ceq(d[i], 48)):
            i += 1
        return mk("str", d[i:])
    e = v.e
    for nd in range(1, 11):
        if nd == 10 or br(z3.ULT(e, 10 ** nd)):
            out = []
            for k in range(nd - 1, -1, -1):
                d = z3.URem(z3.UDiv(e, z3.BitVecVal(10 ** k, INT_BITS)), z3.BitVecVal(10, INT_BITS))
                out.append(simp(z3.Extract(CHAR_BITS - 1, 0, d + 48)))
            return mk("str", out)


# ---------------------------------------------------------------------------
# generic equality / ordering over Python values that may contain symbolic parts
def has_sym(v, _depth=0):
    t = type(v)
    if t in (str, int, bool, float, bytes, type(None)):
        return False
    if isinstance(v, SYM_TYPES):
        return True
    if _depth > 6:
        return True
    if t in (list, tuple, set, frozenset) or isinstance(v, tuple):
        for x in v:
            if has_sym(x, _depth + 1):
                return True
        return False
    if isinstance(v, SymDict):
        return bool(v.nsym) or any(has_sym(x, _depth + 1) for _, x in v.pairs)
    if t is dict:
        for k, x in v.items():
            if has_sym(x, _depth + 1):
                return True
        return False
    if isinstance(v, SymSet):
        return True
    if isinstance(v, (EagerGen,)):
        return any(has_sym(x, _depth + 1) for x in v.items)
    if t is bytearray:
        return False
    if t.__name__ == "SMatch":
        return has_sym(v.string)
    if t is FakeDecodeError:
        return True
    cr = core.CUR
    if cr is not None and id(v) in cr.created:
        return True
    return False


def v_eq(a, b):
    """Python `a == b` where either side may be symbolic -> bool | z3 Bool."""
    if isinstance(a, z3.BoolRef) or isinstance(b, z3.BoolRef):
        if isinstance(a, bool):
            return b if a else z3.Not(b)
        if isinstance(b, bool):
            return a if b else z3.Not(a)
        if isinstance(a, z3.BoolRef) and isinstance(b, z3.BoolRef):
            return a == b
        # bool vs int/other
        other = b if isinstance(a, z3.BoolRef) else a
        sb = a if isinstance(a, z3.BoolRef) else b
        if isinstance(other, int):
            return sb if other == 1 else (z3.Not(sb) if other == 0 else False)
        return False
    if isinstance(a, SInt) or isinstance(b, SInt):
        if isinstance(a, (SInt, int)) and isinstance(b, (SInt, int)) and not isinstance(a, bool) and not isinstance(b, bool):
            return ival(a) == ival(b)
        if isinstance(a, bool) or isinstance(b, bool):
            o = a if isinstance(a, bool) else b
            s = b if isinstance(a, bool) else a
            return s.e == (1 if o else 0)
        return False
    ka, kb = kind_of(a), kind_of(b)
    if ka is not None or kb is not None:
        if ka != kb:
            return False
        if isinstance(a, SByteArray) != isinstance(b, SByteArray) and False:
            pass
        return seq_eq(elems(a), elems(b))
    if isinstance(a, (tuple, list)) and isinstance(b, (tuple, list)):
        if isinstance(a, tuple) != isinstance(b, tuple):
            return False
        if a is b:
            return True
        if len(a) != len(b):
            return False
        return z_and([v_eq(x, y) for x, y in zip(a, b)])
    if has_sym(a) or has_sym(b):
        if a is b:
            return True
        if a is None or b is None:
            return False
        raise Unsupported("== on %s / %s" % (type(a).__name__, type(b).__name__))
    return a == b


def ival(x):
    if isinstance(x, SInt):
        return x.e
    return z3.BitVecVal(int(x), INT_BITS)


def v_lt(a, b):
    """a < b"""
    if isinstance(a, (SInt, int)) and isinstance(b, (SInt, int)):
        if isinstance(a, int) and isinstance(b, int):
            return a < b
        if isinstance(b, int) and b <= 0:
            return False
        if isinstance(a, int) and a < 0:
            return True
        return z3.ULT(ival(a), ival(b))
    ka, kb = kind_of(a), kind_of(b)
    if ka is not None and ka == kb:
        return seq_lt(elems(a), elems(b), bits_of(ka))
    if isinstance(a, tuple) and isinstance(b, tuple):
        # like CPython: find the first differing pair (forking), compare only that one
        for x, y in zip(a, b):
            e = v_eq(x, y)
            if e is True or (e is not False and br(e)):
                continue
            return v_lt(x, y)
        return len(a) < len(b)
    if has_sym(a) or has_sym(b):
        if kind_of(a) is not None or kind_of(b) is not None or isinstance(a, (SInt, int)) or isinstance(b, (SInt, int)) \
                or a is None or b is None:
            raise TypeError("'<' not supported between instances of %r and %r" % (type(a).__name__, type(b).__name__))
        raise Unsupported("< on %s / %s" % (type(a).__name__, type(b).__name__))
    return a < b


def truth(v):
    """bool(v) -> bool | z3 Bool"""
    if isinstance(v, z3.BoolRef):
        return v
    if isinstance(v, (SStr, SBytes, SByteArray)):
        return len(v.ch) > 0
    if isinstance(v, SInt):
        return v.e != 0
    if isinstance(v, SymDict):
        return len(v.pairs) > 0
    if isinstance(v, SymSet):
        return len(v.items) > 0
    return bool(v)


# ---------------------------------------------------------------------------
# containers with symbolic keys
class SymDict(dict):
    """dict created by interpreted code.  `pairs` keeps every entry in insertion
    order; entries with concrete hashable keys are mirrored in the underlying dict
    (so native code sees them).  Invariant: keys are pairwise distinct under the
    path condition (established by forking on equality at insertion)."""

    def __init__(self, *a, **k):
        dict.__init__(self)
        self.pairs = []
        self.nsym = 0
        if a or k:
            for kk, vv in dict(*a, **k).items():
                self.s_set(kk, vv)

    @staticmethod
    def _concrete_key(k):
        return not has_sym(k)

    def _find(self, key):
        """index into pairs of the entry equal to key, or -1 (forks)."""
        if self._concrete_key(key):
            try:
                if dict.__contains__(self, key):
                    for i, (k, _) in enumerate(self.pairs):
                        if not has_sym(k) and k == key:
                            return i
            except TypeError:
                raise
            if not self.nsym:
                return -1
            for i, (k, _) in enumerate(self.pairs):
                if has_sym(k) and br(v_eq(k, key)):
                    return i
            return -1
        for i, (k, _) in enumerate(self.pairs):
            if br(v_eq(k, key)):
                return i
        return -1

    def s_get(self, key, default=None):
        i = self._find(key)
        return self.pairs[i][1] if i >= 0 else default

    def s_getitem(self, key):
        i = self._find(key)
        if i < 0:
            raise KeyError(key)
        return self.pairs[i][1]

    def s_contains(self, key):
        return self._find(key) >= 0

    def s_set(self, key, value):
        i = self._find(key)
        if i >= 0:
            self.pairs[i] = (self.pairs[i][0], value)
            if self._concrete_key(self.pairs[i][0]):
                dict.__setitem__(self, self.pairs[i][0], value)
            return
        self.pairs.append((key, value))
        if self._concrete_key(key):
            dict.__setitem__(self, key, value)
        else:
            self.nsym += 1

    def s_pop(self, key, *default):
        i = self._find(key)
        if i < 0:
            if default:
                return default[0]
            raise KeyError(key)
        k, v = self.pairs.pop(i)
        if self._concrete_key(k):
            dict.__delitem__(self, k)
        else:
            self.nsym -= 1
        return v

    def s_items(self):
        return list(self.pairs)

    def s_keys(self):
        return [k for k, _ in self.pairs]

    def s_values(self):
        return [v for _, v in self.pairs]

    def s_copy(self):
        d = SymDict()
        d.pairs = list(self.pairs)
        d.nsym = self.nsym
        for k, v in self.pairs:
            if self._concrete_key(k):
                dict.__setitem__(d, k, v)
        return d

    def s_update(self, other):
        items = other.s_items() if isinstance(other, SymDict) else list(other.items())
        for k, v in items:
            self.s_set(k, v)


class SymSet(object):
    """set created by interpreted code that holds symbolic members."""

    def __init__(self, items=()):
        self.items = []
        for x in items:
            self.s_add(x)

    def s_contains(self, x):
        for y in self.items:
            if br(v_eq(x, y)):
                return True
        return False

    def s_add(self, x):
        if not self.s_contains(x):
            self.items.append(x)

    def __len__(self):
        return len(self.items)


class EagerGen(object):
    """A generator evaluated eagerly (all generators interpreted here are pure and
    finite).  Like a real generator object it is always truthy and single-pass."""

    def __init__(self, items):
        self.items = list(items)
        self.pos = 0

    def __iter__(self):
        return self

    def __next__(self):
        if self.pos >= len(self.items):
            raise StopIteration
        v = self.items[self.pos]
        self.pos += 1
        return v

    def rest(self):
        r = self.items[self.pos:]
        self.pos = len(self.items)
        return r


def member_of_concrete(key, coll):
    """`key in coll` for a symbolic key and a concrete collection of str/bytes
    (set, frozenset, dict, tuple, list): a disjunction of equalities, no fork."""
    k = kind_of(key)
    if k is None:
        if isinstance(key, tuple):
            return z_or([v_eq(key, c) for c in coll if isinstance(c, tuple) and len(c) == len(key)])
        raise Unsupported("membership of %s" % type(key).__name__)
    ke = elems(key)
    n = len(ke)
    if len(coll) > 8 and isinstance(coll, (dict, set, frozenset)):
        bits = bits_of(k)
        tk = ("in", id(coll), k, n, len(coll))
        t = _TPL.get(tk)
        if t is None:
            cands = [c for c in coll if kind_of(c) == k and len(c) == n]
            t = (_trie_or([_ph(bits, i) for i in range(n)], [elems(c) for c in cands], 0), coll)
            _TPL[tk] = t
        r = _instantiate(t[0], ke, bits)
        return r if isinstance(r, bool) else simp_bool(r)
    cands = [c for c in coll if kind_of(c) == k and len(c) == n]
    return _trie_or(ke, [elems(c) for c in cands], 0)


def _trie_or(ke, cands, i):
    if not cands:
        return False
    if i == len(ke):
        return True
    c = ke[i]
    groups = {}
    for cd in cands:
        groups.setdefault(cd[i], []).append(cd)
    if isinstance(c, int):
        return _trie_or(ke, groups.get(c, []), i + 1)
    if i == len(ke) - 1:
        cs = C.CharSet.of(list(groups))
        return cs.cond(c)
    return z_or([z_and([ceq(c, v), _trie_or(ke, g, i + 1)]) for v, g in sorted(groups.items())])


_PH = {}


def _ph(bits, i):
    k = (bits, i)
    v = _PH.get(k)
    if v is None:
        v = z3.BitVec("__ph%d_%d" % (bits, i), bits)
        _PH[k] = v
    return v


_TPL = {}


def _instantiate(tpl, ke, bits):
    if tpl is True or tpl is False:
        return tpl
    subs = [(_ph(bits, i), (z3.BitVecVal(c, bits) if isinstance(c, int) else c)) for i, c in enumerate(ke)]
    return z3.substitute(tpl, *subs)


def lookup_concrete(d, key, default, missing_raises=False):
    """d.get(key) / d[key] for a concrete dict and a symbolic key."""
    k = kind_of(key)
    if k is None:
        raise Unsupported("dict lookup with %s key" % type(key).__name__)
    ke = elems(key)
    n = len(ke)
    bits = bits_of(k)
    tk = (id(d), k, n, len(d))
    t = _TPL.get(tk)
    if t is None:
        cands = [c for c in d if kind_of(c) == k and len(c) == n]
        phs = [_ph(bits, i) for i in range(n)]
        present = _trie_or(phs, [elems(c) for c in cands], 0)
        vals = [d[c] for c in cands]
        vk = set(kind_of(v) for v in vals)
        table = None
        if len(vk) == 1 and None not in vk and len(set(len(v) for v in vals)) == 1 and len(cands) > 4 \
                and all(type(v) in (str, bytes) for v in vals):
            kindv = list(vk)[0]
            L = len(vals[0])
            rows = [(elems(c), elems(d[c])) for c in cands]
            table = (kindv, [_table_tree(phs, rows, 0, j, bits_of(kindv)) for j in range(L)])
        t = (cands, present, table, d)
        _TPL[tk] = t
    cands, present_t, table, _keep = t
    present = _instantiate(present_t, ke, bits)
    if not br(present if isinstance(present, bool) else z3.simplify(present)):
        if missing_raises:
            raise KeyError(key)
        return default
    if table is not None:
        kindv, trees = table
        out = [simp(_instantiate(tr, ke, bits)) for tr in trees]
        return mk(kindv, out)
    # few entries / heterogeneous values: fork per distinct entry
    for c in cands:
        if br(seq_eq(ke, elems(c))):
            return d[c]
    raise PathCut("infeasible")


def _table_tree(ke, rows, i, j, bits):
    if i == len(ke):
        return z3.BitVecVal(rows[0][1][j], bits)
    c = ke[i]
    groups = {}
    for r in rows:
        groups.setdefault(r[0][i], []).append(r)
    if isinstance(c, int):
        return _table_tree(ke, groups[c], i + 1, j, bits)
    items = sorted(groups.items())
    res = _table_tree(ke, items[-1][1], i + 1, j, bits)
    for v, g in reversed(items[:-1]):
        res = z3.If(c == v, _table_tree(ke, g, i + 1, j, bits), res)
    return res
