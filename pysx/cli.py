import argparse
import os
import sys


def main():
    ap = argparse.ArgumentParser()
    ap.add_argument("pid")
    ap.add_argument("--tier", default=os.environ.get("VERIF_TIER", "quick"))
    ap.add_argument("--replay")
    a = ap.parse_args()
    from pysx import harness
    if a.replay:
        sys.exit(harness.replay(a.replay))
    seed = int(os.environ.get("VERIF_SEED", "0") or 0)
    tier = a.tier if a.tier in ("quick", "thorough") else "quick"
    sys.exit(harness.main_check(a.pid, "checks." + a.pid, tier, seed))


if __name__ == "__main__":
    main()
