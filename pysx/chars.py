"""Character classes and case maps, computed by asking CPython (never hand-written),
turned into range tables usable natively (ints) and symbolically (z3 bit-vectors)."""
import bisect
import re
import z3

MAXCP = 0x10FFFF
_ALL_STR = None
_ALL_BYTES = bytes(range(256))


def all_chars():
    global _ALL_STR
    if _ALL_STR is None:
        _ALL_STR = "".join(map(chr, range(MAXCP + 1)))
    return _ALL_STR


def ranges_from_sorted(cps):
    out = []
    lo = prev = None
    for c in cps:
        if lo is None:
            lo = prev = c
        elif c == prev + 1:
            prev = c
        else:
            out.append((lo, prev))
            lo = prev = c
    if lo is not None:
        out.append((lo, prev))
    return out


class CharSet(object):
    """A set of code points (or byte values) as sorted disjoint ranges."""
    __slots__ = ("ranges", "los", "his", "_cache", "name", "_neg", "_tpl")

    def __init__(self, ranges, name=""):
        self.ranges = list(ranges)
        self.los = [r[0] for r in self.ranges]
        self.his = [r[1] for r in self.ranges]
        self._cache = {}
        self.name = name
        self._neg = None
        self._tpl = None

    @classmethod
    def of(cls, chars, name=""):
        return cls(ranges_from_sorted(sorted(set(ord(c) if isinstance(c, str) else c for c in chars))), name)

    def contains_int(self, c):
        i = bisect.bisect_right(self.los, c) - 1
        return i >= 0 and c <= self.his[i]

    def cond(self, ch):
        """ch: int or z3 bit-vector -> bool or z3 Bool"""
        if isinstance(ch, int):
            return self.contains_int(ch)
        k = ch.get_id()
        ent = self._cache.get(k)
        if ent is None:
            if len(self.ranges) <= 3:
                r = self._build(ch, 0, len(self.ranges))
            else:
                bits = ch.size()
                t = self._tpl.get(bits) if self._tpl else None
                if t is None:
                    ph = z3.BitVec("__cs_ph%d" % bits, bits)
                    t = (ph, self._build(ph, 0, len(self.ranges)))
                    if self._tpl is None:
                        self._tpl = {}
                    self._tpl[bits] = t
                r = z3.substitute(t[1], (t[0], ch))
            if len(self._cache) > 20000:
                self._cache.clear()
            self._cache[k] = (ch, r)   # keep ch alive so its id is not reused
            return r
        return ent[1]

    def _build(self, ch, a, b):
        n = b - a
        if n == 0:
            return z3.BoolVal(False)
        if n <= 4:
            parts = []
            for lo, hi in self.ranges[a:b]:
                if lo == hi:
                    parts.append(ch == lo)
                elif lo == 0:
                    parts.append(z3.ULE(ch, hi))
                else:
                    parts.append(z3.And(z3.ULE(lo, ch), z3.ULE(ch, hi)))
            return parts[0] if len(parts) == 1 else z3.Or(parts)
        mid = (a + b) // 2
        pivot = self.ranges[mid][0]
        return z3.If(z3.ULT(ch, pivot), self._build(ch, a, mid), self._build(ch, mid, b))

    def __len__(self):
        return sum(h - l + 1 for l, h in self.ranges)

    def example(self):
        return self.ranges[0][0] if self.ranges else None


def charset_from_predicate(pred, name="", limit=MAXCP):
    return CharSet(ranges_from_sorted([c for c in range(limit + 1) if pred(chr(c))]), name)


_PRED_CACHE = {}


def str_pred_set(method):
    """CharSet of code points c with getattr(chr(c), method)() true (isspace, isdigit, ...)."""
    cs = _PRED_CACHE.get(method)
    if cs is None:
        f = getattr(str, method)
        cs = CharSet(ranges_from_sorted([c for c in range(MAXCP + 1) if f(chr(c))]), "str." + method)
        _PRED_CACHE[method] = cs
    return cs


def bytes_pred_set(method):
    k = "b:" + method
    cs = _PRED_CACHE.get(k)
    if cs is None:
        f = getattr(bytes, method)
        cs = CharSet(ranges_from_sorted([c for c in range(256) if f(bytes([c]))]), "bytes." + method)
        _PRED_CACHE[k] = cs
    return cs


class CharMap(object):
    """A code point -> code point map (str.lower / str.upper) as a short list of segments
    (lo, hi, kind, arg) with identity elsewhere.  kinds: 'add' c+arg; 'or1' c|1;
    'upeven' (c+1)&~1; 'and1' c&~1; 'downodd' (c-1)|1.  `multi` lists code points whose
    image is not a single code point.  Built from CPython's own answers, then checked
    exhaustively against them."""

    KINDS = {
        "or1": lambda c, a: c | 1,
        "upeven": lambda c, a: (c + 1) & ~1,
        "and1": lambda c, a: c & ~1,
        "downodd": lambda c, a: (c - 1) | 1,
    }

    def __init__(self, fn, name, limit=MAXCP):
        self.name = name
        img = {}
        multi = {}
        for c in range(limit + 1):
            if 0xD800 <= c <= 0xDFFF:
                continue
            r = fn(chr(c))
            if len(r) != 1:
                multi[c] = r
            elif ord(r) != c:
                img[c] = ord(r)
        self.multi = multi
        self.multi_set = CharSet(ranges_from_sorted(sorted(multi)), name + ".multi")

        def val(c):
            return img.get(c, c)

        def ok(c):
            return c <= limit and c not in multi and not (0xD800 <= c <= 0xDFFF)
        segs = []
        todo = sorted(img)
        i = 0
        while i < len(todo):
            c0 = todo[i]
            best = None
            cands = [("add", img[c0] - c0)] + [(k, 0) for k in self.KINDS]
            for kind, arg in cands:
                f = (lambda c, a=arg: c + a) if kind == "add" else (lambda c, k=kind: self.KINDS[k](c, 0))
                if f(c0) != img[c0]:
                    continue
                hi = c0
                c = c0 + 1
                while ok(c) and f(c) == val(c):
                    if c in img:
                        hi = c
                    c += 1
                    if c - hi > 64:
                        break
                if best is None or hi > best[1]:
                    best = (c0, hi, kind, arg)
            segs.append(best)
            while i < len(todo) and todo[i] <= best[1]:
                i += 1
        self.segs = segs
        self._los = [s_[0] for s_ in segs]
        self._cache = {}
        self._tpl = {}
        # self-check against CPython
        for c in range(limit + 1):
            if ok(c) and self.apply_int(c) != val(c):
                raise AssertionError("CharMap %s wrong at %x" % (name, c))

    def _f_int(self, seg, c):
        lo, hi, kind, arg = seg
        if kind == "add":
            return c + arg
        return self.KINDS[kind](c, arg)

    def apply_int(self, c):
        i = bisect.bisect_right(self._los, c) - 1
        if i >= 0 and c <= self.segs[i][1]:
            return self._f_int(self.segs[i], c)
        return c

    def apply(self, ch):
        """Symbolic application, valid when ch is not in multi_set."""
        if isinstance(ch, int):
            return self.apply_int(ch)
        k = ch.get_id()
        ent = self._cache.get(k)
        if ent is None:
            bits = ch.size()
            t = self._tpl.get(bits)
            if t is None:
                ph = z3.BitVec("__cm_ph%d" % bits, bits)
                t = (ph, self._build(ph, 0, len(self.segs)))
                self._tpl[bits] = t
            r = z3.substitute(t[1], (t[0], ch))
            if len(self._cache) > 5000:
                self._cache.clear()
            self._cache[k] = (ch, r)
            return r
        return ent[1]

    def _f_sym(self, seg, ch):
        lo, hi, kind, arg = seg
        bits = ch.size()
        one = z3.BitVecVal(1, bits)
        if kind == "add":
            return ch + z3.BitVecVal(arg % (1 << bits), bits)
        if kind == "or1":
            return ch | one
        if kind == "upeven":
            return (ch + one) & ~one
        if kind == "and1":
            return ch & ~one
        return (ch - one) | one

    def _build(self, ch, a, b):
        n = b - a
        if n == 0:
            return ch
        if n <= 2:
            r = ch
            for seg in reversed(self.segs[a:b]):
                lo, hi = seg[0], seg[1]
                c = (ch == lo) if lo == hi else z3.And(z3.ULE(lo, ch), z3.ULE(ch, hi))
                r = z3.If(c, self._f_sym(seg, ch), r)
            return r
        mid = (a + b) // 2
        return z3.If(z3.ULT(ch, self.segs[mid][0]), self._build(ch, a, mid), self._build(ch, mid, b))


_MAPS = {}


def str_map(method):
    m = _MAPS.get(method)
    if m is None:
        m = CharMap(getattr(str, method), "str." + method)
        _MAPS[method] = m
    return m


def bytes_map(method):
    k = "b:" + method
    m = _MAPS.get(k)
    if m is None:
        f = getattr(bytes, method)
        m = CharMap(lambda ch: f(bytes([ord(ch)])).decode("latin-1"), "bytes." + method, limit=255)
        _MAPS[k] = m
    return m


# ---------------------------------------------------------------------------
# regex character-set nodes: ask the sre compiler itself
_RX_SET_CACHE = {}


def regex_node_set(node, flags, is_bytes):
    """CharSet of the characters matched by a single-character sre parse node
    (LITERAL / NOT_LITERAL / IN / ANY / CATEGORY) under `flags`, obtained by
    compiling that node alone with CPython's sre compiler and running it over
    every code point (resp. byte)."""
    key = (repr(node), int(flags), is_bytes)
    cs = _RX_SET_CACHE.get(key)
    if cs is not None:
        return cs
    from re import _parser, _compiler
    state = _parser.State()
    state.flags = int(flags)
    state.str = b"" if is_bytes else ""
    sp = _parser.SubPattern(state, [node])
    pat = _compiler.compile(sp, int(flags))
    if is_bytes:
        hits = pat.findall(_ALL_BYTES)
        cps = [h[0] for h in hits]
    else:
        hits = pat.findall(all_chars())
        cps = [ord(h) for h in hits]
    cs = CharSet(ranges_from_sorted(cps), "rx" + repr(node)[:40])
    _RX_SET_CACHE[key] = cs
    return cs
