"""Harness-side helpers: symbolic inputs, concretisation under a model, checking."""
import sys
import threading
import z3

from . import core
from .core import Explorer, PathCut, Unsupported
from . import values as V
from .values import SStr, SBytes, SByteArray, SInt, SymDict, SymSet, EagerGen, mk, elems, has_sym
from .interp import Interp, ENCODED
from . import rx as RX

sys.setrecursionlimit(100000)
threading.stack_size(512 * 1024 * 1024)

INTERP = Interp()


def call(f, *args, **kwargs):
    return INTERP.call(f, args, kwargs)


def sym_str(st, name, n, domain=None):
    return mk("str", [st.char_var("%s_%d" % (name, i), domain) for i in range(n)])


def sym_bytes(st, name, n):
    return mk("bytes", [st.byte_var("%s_%d" % (name, i)) for i in range(n)])


HEXDOM = [(0x30, 0x39), (0x41, 0x46), (0x61, 0x66)]


def sym_tokens(st, name, shape):
    """A string made of tokens: 'c' = any code point, 'E' = a percent-escape '%XY' with two
    symbolic hex digits (either case), 'e' = an escape of a byte >= 0x80 (first digit 8-f)."""
    out = []
    for i, t in enumerate(shape):
        if t == "c":
            out.append(st.char_var("%s_%d" % (name, i)))
        elif t in "Ee":
            out.append(37)
            d1 = [(0x38, 0x39), (0x41, 0x46), (0x61, 0x66)] if t == "e" else HEXDOM
            out.append(st.char_var("%s_%dh" % (name, i), d1))
            out.append(st.char_var("%s_%dl" % (name, i), HEXDOM))
        else:
            out.append(ord(t))
    return mk("str", out)


def cat(*parts):
    out = []
    for p in parts:
        out.extend(elems(p))
    return mk("str", out)


def _ev(model, e):
    v = model.eval(e, model_completion=True)
    if z3.is_bv_value(v):
        return v.as_long()
    if z3.is_true(v):
        return True
    if z3.is_false(v):
        return False
    raise Unsupported("cannot evaluate %s under model" % e)


def concretize(model, v):
    """Concrete Python value of v under a z3 model."""
    if isinstance(v, (str, bytes, int, float, bool, type(None))):
        return v
    if isinstance(v, SStr):
        return "".join(chr(c if isinstance(c, int) else _ev(model, c)) for c in v.ch)
    if isinstance(v, SBytes):
        return bytes(c if isinstance(c, int) else _ev(model, c) for c in v.ch)
    if isinstance(v, SByteArray):
        return bytearray(c if isinstance(c, int) else _ev(model, c) for c in v.ch)
    if isinstance(v, SInt):
        return _ev(model, v.e)
    if isinstance(v, z3.BoolRef):
        return _ev(model, v)
    if isinstance(v, z3.BitVecRef):
        return _ev(model, v)
    if isinstance(v, tuple):
        items = [concretize(model, x) for x in v]
        if hasattr(v, "_fields"):
            return type(v)(*items)
        return tuple(items)
    if isinstance(v, list):
        return [concretize(model, x) for x in v]
    if isinstance(v, SymDict):
        return {concretize(model, k): concretize(model, x) for k, x in v.pairs}
    if isinstance(v, dict):
        return {concretize(model, k): concretize(model, x) for k, x in v.items()}
    if isinstance(v, SymSet):
        return set(concretize(model, x) for x in v.items)
    if isinstance(v, EagerGen):
        return [concretize(model, x) for x in v.items]
    if isinstance(v, RX.SMatch):
        return ("match", concretize(model, v.group(0)), v.span())
    if isinstance(v, BaseException):
        return v
    return v


def explore(fn, **kw):
    """Run an Explorer in a big-stack thread (the interpreter recurses deeply)."""
    ex = Explorer(fn, **kw)
    err = []

    def target():
        try:
            ex.run()
        except BaseException as e:  # noqa
            import traceback
            err.append((e, traceback.format_exc()))
    t = threading.Thread(target=target)
    t.start()
    t.join()
    if err:
        sys.stderr.write(err[0][1])
        raise err[0][0]
    return ex


class Outcome(object):
    """Result of running a callable symbolically: value or the exception raised."""
    __slots__ = ("value", "exc")

    def __init__(self, value=None, exc=None):
        self.value = value
        self.exc = exc

    def __repr__(self):
        return "Outcome(exc=%r)" % (self.exc,) if self.exc is not None else "Outcome(%r)" % (self.value,)


def attempt(f, *args, **kwargs):
    """call f symbolically, capturing ordinary exceptions as data"""
    try:
        return Outcome(value=INTERP.call(f, args, kwargs))
    except core.EngineSignal:
        raise
    except z3.Z3Exception:
        raise
    except Exception as e:
        return Outcome(exc=e)


def native_attempt(f, *args, **kwargs):
    """run f natively under CPython's ordinary recursion limit (the interpreter itself needs a
    much larger one, under which a runaway native recursion would take gigabytes before failing)"""
    old = sys.getrecursionlimit()
    depth = 0
    fr = sys._getframe()
    while fr is not None:
        depth += 1
        fr = fr.f_back
    sys.setrecursionlimit(depth + 1000)
    try:
        return Outcome(value=f(*args, **kwargs))
    except Exception as e:
        return Outcome(exc=e)
    finally:
        sys.setrecursionlimit(old)


def same_outcome(model, sym, nat):
    """compare a symbolic Outcome (under model) with a native Outcome"""
    if (sym.exc is None) != (nat.exc is None):
        return False
    if sym.exc is not None:
        return type(sym.exc) is type(nat.exc)
    a = concretize(model, sym.value)
    b = nat.value
    return norm(a) == norm(b)


def norm(v):
    if isinstance(v, EagerGen):
        return [norm(x) for x in v.items]
    if hasattr(v, "__next__") or isinstance(v, (map, filter, zip, reversed)):
        return [norm(x) for x in v]
    if isinstance(v, bytearray):
        return bytes(v)
    if isinstance(v, tuple):
        return tuple(norm(x) for x in v)
    if isinstance(v, list):
        return [norm(x) for x in v]
    return v
