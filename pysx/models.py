"""Models of C-level builtins / methods applied to symbolic values.  Every model is validated
on every explored path: the harness re-runs the obligation natively on one concrete model of the
path and compares verdicts (harness.run_prop)."""
import builtins
import html
import os
import re
import types
import urllib.parse
import z3

from . import core
from .core import Unsupported, PathCut
from . import values as V
from .values import (SStr, SBytes, SByteArray, SInt, SymDict, SymSet, EagerGen, br, mk, elems,
                     kind_of, has_sym, v_eq, v_lt, truth, z_and, z_or, z_not, ceq)
from . import chars as C
from . import rx as RX

NATIVE = object()


def _cond(v):
    t = truth(v) if not isinstance(v, bool) else v
    if t is True or t is False:
        return t
    return br(t)


def to_str(interp, x):
    if isinstance(x, (str, SStr)):
        return x
    if isinstance(x, SInt):
        return V.int_to_str(x)
    if isinstance(x, z3.BoolRef):
        return "True" if br(x) else "False"
    if has_sym(x):
        if isinstance(x, (SBytes, SByteArray)):
            raise Unsupported("str() of symbolic bytes")
        s = V._class_attr_str(x) if hasattr(V, "_class_attr_str") else None
        raise Unsupported("str() of %s holding symbolic values" % type(x).__name__)
    return str(x)


def str_format(interp, fmt, arg):
    """fmt % arg with %s / %d / %% only"""
    fe = elems(fmt)
    if has_sym(fmt):
        raise Unsupported("symbolic format string")
    args = list(arg) if isinstance(arg, tuple) else [arg]
    out = []
    i = 0
    ai = 0
    while i < len(fe):
        c = fe[i]
        if c != 37:
            out.append(c)
            i += 1
            continue
        if i + 1 >= len(fe):
            raise ValueError("incomplete format")
        d = chr(fe[i + 1])
        if d == "%":
            out.append(37)
        elif d == "r":
            if ai >= len(args):
                raise TypeError("not enough arguments for format string")
            a = args[ai]
            ai += 1
            r = m_repr(interp, (a,), {})
            out.extend(elems(repr(a) if r is NATIVE else r))
        elif d in "sd":
            if ai >= len(args):
                raise TypeError("not enough arguments for format string")
            a = args[ai]
            ai += 1
            if d == "d" and not isinstance(a, (int, SInt)):
                raise TypeError("%d format: a real number is required")
            out.extend(elems(to_str(interp, a)))
        else:
            raise Unsupported("format directive %%%s" % d)
        i += 2
    if ai != len(args):
        raise TypeError("not all arguments converted during string formatting")
    return mk("str", out)


# ---------------------------------------------------------------------------
# methods
def method(interp, obj, name, args, kwargs):
    if isinstance(obj, (SStr, SBytes, str, bytes)):
        return seq_method(interp, obj, name, args, kwargs)
    if isinstance(obj, (SByteArray, bytearray)):
        return bytearray_method(interp, obj, name, args, kwargs)
    if isinstance(obj, SymDict):
        return symdict_method(interp, obj, name, args, kwargs)
    if isinstance(obj, dict):
        return dict_method(interp, obj, name, args, kwargs)
    if isinstance(obj, SymSet):
        return symset_method(interp, obj, name, args, kwargs)
    if isinstance(obj, (set, frozenset)):
        if name == "__contains__":
            return interp.contains(obj, args[0])
        if name == "add" and isinstance(obj, set):
            raise Unsupported("adding a symbolic member to a native set")
        if name in ("issuperset", "__ge__"):
            # every element of the (symbolic) argument is a member of the concrete set
            return z_and([interp.contains(obj, x) for x in interp.iterate(args[0])])
        raise Unsupported("set.%s with symbolic argument" % name)
    if isinstance(obj, list):
        return list_method(interp, obj, name, args, kwargs)
    if isinstance(obj, tuple):
        if name == "__contains__":
            return interp.contains(obj, args[0])
        if name in ("index", "count"):
            return list_method(interp, list(obj), name, args, kwargs)
        return getattr(obj, name)(*args, **kwargs)
    if isinstance(obj, EagerGen):
        if name == "__next__":
            return next(obj)
        raise Unsupported("generator.%s" % name)
    if isinstance(obj, re.Pattern):
        return pattern_method(interp, obj, name, args, kwargs)
    raise Unsupported("method %s.%s with symbolic arguments" % (type(obj).__name__, name))


def _seq_arg(kind, x, what="argument"):
    k = kind_of(x)
    if k != kind:
        raise TypeError("%s must be %s, not %s" % (what, kind, type(x).__name__))
    return elems(x)


def seq_method(interp, obj, name, args, kwargs):
    kind = kind_of(obj)
    h = elems(obj)
    a = list(args)
    if kwargs and name not in ("split", "rsplit", "encode", "decode"):
        raise Unsupported("keyword arguments to %s.%s" % (kind, name))
    if name in ("strip", "lstrip", "rstrip"):
        chs = None
        if a and a[0] is not None:
            chs = _seq_arg(kind, a[0])
        return V.strip(kind, h, chs, left=name != "rstrip", right=name != "lstrip")
    if name in ("lower", "upper"):
        return V.case_map(kind, h, name)
    if name in ("startswith", "endswith"):
        pre = a[0]
        if len(a) > 1:
            raise Unsupported("startswith with start/end")
        opts = list(pre) if isinstance(pre, tuple) else [pre]
        res = []
        for p in opts:
            pe = _seq_arg(kind, p)
            res.append(V.match_at(h, 0 if name == "startswith" else len(h) - len(pe), pe))
        return z_or(res)
    if name in ("find", "index", "rfind", "rindex"):
        n = _seq_arg(kind, a[0])
        start = a[1] if len(a) > 1 and a[1] is not None else 0
        end = a[2] if len(a) > 2 else None
        if isinstance(start, SInt) or isinstance(end, SInt):
            raise Unsupported("symbolic find bounds")
        r = (V.find if name in ("find", "index") else V.rfind)(h, n, start, end)
        if r < 0 and name.endswith("index"):
            raise ValueError("substring not found")
        return r
    if name == "count":
        return V.count(h, _seq_arg(kind, a[0]))
    if name in ("split", "rsplit"):
        sep = a[0] if a else kwargs.get("sep")
        maxsplit = a[1] if len(a) > 1 else kwargs.get("maxsplit", -1)
        if sep is None:
            if name == "rsplit" and maxsplit >= 0:
                raise Unsupported("rsplit(None, n)")
            return V.split_ws(kind, h, maxsplit)
        se = _seq_arg(kind, sep)
        return (V.split if name == "split" else V.rsplit)(kind, h, se, maxsplit)
    if name in ("partition", "rpartition"):
        se = _seq_arg(kind, a[0])
        if name == "partition":
            i = V.find(h, se)
            if i < 0:
                return (mk(kind, h), mk(kind, []), mk(kind, []))
        else:
            i = V.rfind(h, se)
            if i < 0:
                return (mk(kind, []), mk(kind, []), mk(kind, h))
        return (mk(kind, h[:i]), mk(kind, h[i:i + len(se)]), mk(kind, h[i + len(se):]))
    if name == "replace":
        old = _seq_arg(kind, a[0])
        new = _seq_arg(kind, a[1])
        cnt = a[2] if len(a) > 2 else -1
        return V.replace(kind, h, old, new, cnt)
    if name == "join":
        items = interp.iterate(a[0])
        out = []
        for i, it in enumerate(items):
            if kind_of(it) != kind:
                raise TypeError("sequence item %d: expected %s instance, %s found" % (i, kind, type(it).__name__))
            if i:
                out.extend(h)
            out.extend(elems(it))
        return mk(kind, out)
    if name in ("isdigit", "isalpha", "isspace", "isalnum", "isupper", "islower", "isdecimal", "isnumeric"):
        if name in ("isupper", "islower"):
            raise Unsupported(name)
        cs = C.str_pred_set(name) if kind == "str" else C.bytes_pred_set(name)
        return V.all_in(h, cs, empty=False)
    if name == "isascii":
        return V.all_in(h, V.ASCII, empty=True)
    if name == "encode":
        if kind != "str":
            raise AttributeError("encode")
        enc = (a[0] if a else kwargs.get("encoding", "utf-8")).lower().replace("-", "").replace("_", "")
        errors = a[1] if len(a) > 1 else kwargs.get("errors", "strict")
        if enc in ("utf8",):
            return V.utf8_encode(h)
        if enc == "ascii":
            if br(V.all_in(h, V.ASCII, empty=True)):
                return mk("bytes", [c if isinstance(c, int) else V.simp(z3.Extract(7, 0, c)) for c in h])
            if errors == "strict":
                raise UnicodeEncodeError("ascii", "", 0, 1, "ordinal not in range(128)")
            raise Unsupported("ascii encode with errors=%s" % errors)
        if enc == "idna":
            core.CUR.assume(False, "idna codec on a symbolic label")
        raise Unsupported("encode(%s)" % enc)
    if name == "decode":
        if kind != "bytes":
            raise AttributeError("decode")
        enc = (a[0] if a else kwargs.get("encoding", "utf-8")).lower().replace("-", "").replace("_", "")
        errors = a[1] if len(a) > 1 else kwargs.get("errors", "strict")
        if enc == "utf8":
            if errors not in ("strict", "replace", "ignore"):
                import codecs
                hf = codecs.lookup_error(errors)
                return V.utf8_decode(h, errors, handler=lambda e: tuple(interp.iterate(interp.call(hf, (e,), {}))))
            return V.utf8_decode(h, errors)
        if enc == "ascii":
            if br(V.all_in(h, V.ASCII, empty=True)):
                return mk("str", [c if isinstance(c, int) else V.simp(z3.ZeroExt(core.CHAR_BITS - 8, c)) for c in h])
            if errors == "strict":
                raise UnicodeDecodeError("ascii", b"", 0, 1, "ordinal not in range(128)")
            raise Unsupported("ascii decode with errors=%s" % errors)
        if enc == "idna":
            core.CUR.assume(False, "idna codec on a symbolic label")
        raise Unsupported("decode(%s)" % enc)
    if name == "__contains__":
        return interp.contains(obj, a[0])
    if name == "__len__":
        return len(h)
    if name == "format":
        raise Unsupported("str.format")
    if name == "title" or name == "capitalize" or name == "swapcase" or name == "casefold":
        raise Unsupported("str.%s" % name)
    if name == "zfill" or name == "ljust" or name == "rjust":
        raise Unsupported("str.%s" % name)
    if name == "removeprefix":
        p = _seq_arg(kind, a[0])
        return mk(kind, h[len(p):]) if br(V.match_at(h, 0, p)) else mk(kind, h)
    if name == "removesuffix":
        p = _seq_arg(kind, a[0])
        return mk(kind, h[:len(h) - len(p)]) if len(p) and br(V.match_at(h, len(h) - len(p), p)) else mk(kind, h)
    if name == "splitlines":
        raise Unsupported("splitlines")
    if name == "hex" or name == "fromhex":
        raise Unsupported(name)
    raise Unsupported("%s.%s" % (kind, name))


def bytearray_method(interp, obj, name, args, kwargs):
    if isinstance(obj, bytearray):
        obj_e = list(obj)
    else:
        obj_e = obj.ch
    if name == "extend":
        if isinstance(obj, bytearray):
            raise Unsupported("native bytearray.extend with symbolic bytes")
        obj.ch.extend(elems(args[0]))
        return None
    if name == "append":
        raise Unsupported("bytearray.append")
    if name == "decode":
        return seq_method(interp, mk("bytes", obj_e), "decode", args, kwargs)
    return seq_method(interp, mk("bytes", obj_e), name, args, kwargs)


def symdict_method(interp, d, name, args, kwargs):
    if name == "get":
        return d.s_get(*args)
    if name == "items":
        return d.s_items()
    if name == "keys":
        return d.s_keys()
    if name == "values":
        return d.s_values()
    if name == "copy":
        return d.s_copy()
    if name == "update":
        if args:
            d.s_update(args[0])
        for k, v in kwargs.items():
            d.s_set(k, v)
        return None
    if name == "pop":
        return d.s_pop(*args)
    if name == "setdefault":
        i = d._find(args[0])
        if i >= 0:
            return d.pairs[i][1]
        d.s_set(args[0], args[1] if len(args) > 1 else None)
        return args[1] if len(args) > 1 else None
    if name == "__contains__":
        return d.s_contains(args[0])
    if name == "__getitem__":
        return d.s_getitem(args[0])
    if name == "__setitem__":
        return d.s_set(args[0], args[1])
    if name == "__len__":
        return len(d.pairs)
    if name == "clear":
        for k, _ in list(d.pairs):
            if d._concrete_key(k):
                dict.__delitem__(d, k)
        d.pairs = []
        d.nsym = 0
        return None
    if name == "popitem":
        if not d.pairs:
            raise KeyError("popitem(): dictionary is empty")
        k, v = d.pairs[-1]
        d.s_pop(k)
        return (k, v)
    raise Unsupported("dict.%s" % name)


def dict_method(interp, d, name, args, kwargs):
    if name == "get":
        if has_sym(args[0]):
            return V.lookup_concrete(d, args[0], args[1] if len(args) > 1 else None)
        return d.get(*args)
    if name == "__contains__":
        return interp.contains(d, args[0])
    if name == "__getitem__":
        return V.lookup_concrete(d, args[0], None, missing_raises=True)
    if name in ("__setitem__", "setdefault", "update", "pop"):
        raise Unsupported("native dict.%s with symbolic arguments" % name)
    return getattr(d, name)(*args, **kwargs)


def symset_method(interp, s, name, args, kwargs):
    if name == "add":
        s.s_add(args[0])
        return None
    if name == "__contains__":
        return s.s_contains(args[0])
    raise Unsupported("set.%s" % name)


def list_method(interp, l, name, args, kwargs):
    if name in ("append", "extend", "insert", "pop", "reverse", "copy", "clear"):
        if name == "extend":
            l.extend(interp.iterate(args[0]))
            return None
        return getattr(l, name)(*args)
    if name == "index":
        for i, x in enumerate(l):
            if _cond(v_eq(x, args[0])):
                return i
        raise ValueError("not in list")
    if name == "count":
        return sum(1 for x in l if _cond(v_eq(x, args[0])))
    if name == "remove":
        for i, x in enumerate(l):
            if _cond(v_eq(x, args[0])):
                del l[i]
                return None
        raise ValueError("list.remove(x): x not in list")
    if name == "__contains__":
        return interp.contains(l, args[0])
    if name == "sort":
        l[:] = m_sorted(interp, (l,), kwargs)
        return None
    raise Unsupported("list.%s" % name)


def _call_repl(interp):
    return lambda f, a, k: interp.call(f, a, k)


def pattern_method(interp, pat, name, args, kwargs):
    a = list(args)
    if name in ("match", "search", "fullmatch"):
        subj = a[0]
        if not has_sym(subj):
            return getattr(pat, name)(*args, **kwargs)
        return getattr(RX.rx_for(pat), name)(*a, **kwargs)
    if name == "sub":
        repl, subj = a[0], a[1]
        count = a[2] if len(a) > 2 else kwargs.get("count", 0)
        from .interp import Closure
        if not has_sym(subj) and not has_sym(repl) and not isinstance(repl, Closure):
            return pat.sub(repl, subj, count)
        if not has_sym(subj) and not has_sym(repl):
            # interpreted callback on a concrete subject: still fine natively (Closure is callable)
            return pat.sub(repl, subj, count)
        return RX.rx_for(pat).sub(repl, subj, count, caller=_call_repl(interp))
    if name in ("split", "finditer", "findall"):
        subj = a[0]
        if not has_sym(subj):
            r = getattr(pat, name)(*args, **kwargs)
            return EagerGen(list(r)) if name == "finditer" else r
        r = getattr(RX.rx_for(pat), name)(*a, **kwargs)
        return EagerGen(r) if name == "finditer" else r
    raise Unsupported("Pattern.%s" % name)


# ---------------------------------------------------------------------------
# function models (keyed by the function object)
def m_len(interp, args, kw):
    from .interp import _sh
    x = _sh(args[0])
    if isinstance(x, (SStr, SBytes, SByteArray)):
        return len(x.ch)
    if isinstance(x, SymDict):
        return len(x.pairs)
    if isinstance(x, SymSet):
        return len(x.items)
    if isinstance(x, (str, bytes, list, tuple, dict, set, frozenset, bytearray)):
        return len(x)
    import types as _t
    from .interp import _class_attr
    ln = _class_attr(type(x), "__len__")
    if isinstance(ln, _t.FunctionType) and has_sym(x):
        return interp.call_pyfunc(ln, (x,), {})
    return len(x)


def _like(x):
    if isinstance(x, SStr):
        return ""
    if isinstance(x, SBytes):
        return b""
    if isinstance(x, SByteArray):
        return bytearray()
    if isinstance(x, SInt):
        return 0
    if isinstance(x, z3.BoolRef):
        return True
    if isinstance(x, SymSet):
        return set()
    if isinstance(x, EagerGen):
        return (y for y in ())
    from .interp import Closure
    if isinstance(x, Closure):
        return _like
    return x


def m_isinstance(interp, args, kw):
    return isinstance(_like(args[0]), args[1])


def m_str(interp, args, kw):
    if not args:
        return ""
    if len(args) > 1 or kw:
        if has_sym(args):
            enc = args[1] if len(args) > 1 else kw.get("encoding")
            return seq_method(interp, args[0], "decode", (enc,) + tuple(args[2:]), {})
        return NATIVE
    x = args[0]
    if not has_sym(x):
        return NATIVE
    return to_str(interp, x)


def m_repr(interp, args, kw):
    if not has_sym(args):
        return NATIVE
    x = args[0]
    if isinstance(x, SStr):
        return mk("str", [39] + list(x.ch) + [39])   # only used in error messages
    raise Unsupported("repr of symbolic value")


def m_int(interp, args, kw):
    if not has_sym(args):
        return NATIVE
    x = args[0]
    if len(args) > 1 or "base" in kw:
        base = args[1] if len(args) > 1 else kw["base"]
        if base == 16 and isinstance(x, SStr) and not has_sym(base):
            return V.to_int_hex(list(x.ch))
        raise Unsupported("int with base on symbolic")
    if isinstance(x, SStr):
        return V.to_int(list(x.ch))
    if isinstance(x, SInt):
        return x
    if isinstance(x, z3.BoolRef):
        return SInt(z3.If(x, z3.BitVecVal(1, core.INT_BITS), z3.BitVecVal(0, core.INT_BITS)))
    raise Unsupported("int(%s)" % type(x).__name__)


def m_bool(interp, args, kw):
    if not args:
        return False
    x = args[0]
    if has_sym(x) or isinstance(x, (SymDict, SymSet)):
        from .interp import _class_attr
        return truth(x)
    return NATIVE


def _apply_key(interp, key, x):
    return x if key is None else interp.call(key, (x,), {})


def m_sorted(interp, args, kw):
    items = interp.iterate(args[0])
    key = kw.get("key")
    reverse = kw.get("reverse", False)
    from .interp import Closure
    keys = [_apply_key(interp, key, x) for x in items]
    if not has_sym(keys):
        order = sorted(range(len(items)), key=lambda i: keys[i], reverse=bool(reverse))
        return [items[i] for i in order]
    # stable insertion sort, forking on each comparison
    out = []
    for i in range(len(items)):
        j = len(out)
        while j > 0:
            lt = v_lt(keys[i], keys[out[j - 1]]) if not reverse else v_lt(keys[out[j - 1]], keys[i])
            if _cond(lt):
                j -= 1
            else:
                break
        out.insert(j, i)
    return [items[i] for i in out]


def m_reversed(interp, args, kw):
    x = args[0]
    if isinstance(x, (list, tuple)):
        return EagerGen(list(reversed(x)))
    if isinstance(x, (SStr, SBytes)):
        return EagerGen(list(reversed(interp.iterate(x))))
    if has_sym(x):
        raise Unsupported("reversed(%s)" % type(x).__name__)
    return EagerGen(list(reversed(x)))


def m_any(interp, args, kw):
    for x in interp.iterate(args[0]):
        if _cond(x):
            return True
    return False


def m_all(interp, args, kw):
    for x in interp.iterate(args[0]):
        if not _cond(x):
            return False
    return True


def m_next(interp, args, kw):
    it = args[0]
    if isinstance(it, EagerGen):
        try:
            return next(it)
        except StopIteration:
            if len(args) > 1:
                return args[1]
            raise
    return NATIVE


def m_iter(interp, args, kw):
    x = args[0]
    if isinstance(x, EagerGen):
        return x
    if isinstance(x, (list, tuple)):
        return EagerGen(list(x))
    return EagerGen(interp.iterate(x))


def m_list(interp, args, kw):
    if not args:
        return []
    return interp.iterate(args[0])


def m_tuple(interp, args, kw):
    if not args:
        return ()
    if isinstance(args[0], tuple) and type(args[0]) is tuple:
        return args[0]
    return tuple(interp.iterate(args[0]))


def m_set(interp, args, kw):
    if not args:
        return SymSet()
    items = interp.iterate(args[0])
    if has_sym(items):
        return SymSet(items)
    return SymSet(items)


def m_frozenset(interp, args, kw):
    if not args or not has_sym(args):
        return NATIVE
    return SymSet(interp.iterate(args[0]))


def m_dict(interp, args, kw):
    d = SymDict()
    if args:
        src = args[0]
        if isinstance(src, SymDict):
            d.s_update(src)
        elif isinstance(src, dict):
            for k, v in src.items():
                d.s_set(k, v)
        else:
            for it in interp.iterate(src):
                k, v = interp.iterate(it)
                d.s_set(k, v)
    for k, v in kw.items():
        d.s_set(k, v)
    return d


def m_minmax(which):
    def f(interp, args, kw):
        if not has_sym(args):
            return NATIVE
        items = interp.iterate(args[0]) if len(args) == 1 else list(args)
        key = kw.get("key")
        if not items:
            if "default" in kw:
                return kw["default"]
            raise ValueError("%s() arg is an empty sequence" % which)
        best = items[0]
        bk = _apply_key(interp, key, best)
        for x in items[1:]:
            xk = _apply_key(interp, key, x)
            c = v_lt(xk, bk) if which == "min" else v_lt(bk, xk)
            if _cond(c):
                best, bk = x, xk
        return best
    return f


def m_callable(interp, args, kw):
    from .interp import Closure
    if isinstance(args[0], Closure):
        return True
    if has_sym(args[0]) and isinstance(args[0], V.SYM_TYPES):
        return False
    return NATIVE


def m_map(interp, args, kw):
    f = args[0]
    its = [interp.iterate(x) for x in args[1:]]
    return EagerGen([interp.call(f, tuple(xs), {}) for xs in zip(*its)])


def m_filter(interp, args, kw):
    f = args[0]
    out = []
    for x in interp.iterate(args[1]):
        v = x if f is None else interp.call(f, (x,), {})
        if _cond(v):
            out.append(x)
    return EagerGen(out)


def m_enumerate(interp, args, kw):
    start = args[1] if len(args) > 1 else kw.get("start", 0)
    return EagerGen([(i + start, x) for i, x in enumerate(interp.iterate(args[0]))])


def m_zip(interp, args, kw):
    return EagerGen(list(zip(*[interp.iterate(x) for x in args])))


def m_sum(interp, args, kw):
    if not has_sym(args):
        return NATIVE
    tot = args[1] if len(args) > 1 else 0
    for x in interp.iterate(args[0]):
        tot = interp.binop(__import__("ast").Add(), tot, x)
    return tot


def m_bytearray(interp, args, kw):
    if not args:
        return SByteArray()
    x = args[0]
    if kind_of(x) == "bytes":
        return SByteArray(elems(x))
    if isinstance(x, int):
        return SByteArray([0] * x)
    raise Unsupported("bytearray(%s)" % type(x).__name__)


def m_bytes(interp, args, kw):
    if not has_sym(args):
        return NATIVE
    x = args[0]
    if isinstance(x, (SByteArray, SBytes)):
        return mk("bytes", elems(x))
    raise Unsupported("bytes(%s)" % type(x).__name__)


def m_getattr(interp, args, kw):
    if len(args) == 3:
        try:
            return interp.getattr_(args[0], args[1])
        except AttributeError:
            return args[2]
    return interp.getattr_(args[0], args[1])


def m_hasattr(interp, args, kw):
    try:
        interp.getattr_(args[0], args[1])
        return True
    except AttributeError:
        return False
    except Unsupported:
        return hasattr(_like(args[0]), args[1])


def m_ord(interp, args, kw):
    x = args[0]
    if isinstance(x, SStr):
        if len(x.ch) != 1:
            raise TypeError("ord() expected a character")
        c = x.ch[0]
        return SInt(z3.ZeroExt(core.INT_BITS - core.CHAR_BITS, c))
    return NATIVE


def m_chr(interp, args, kw):
    x = args[0]
    if not isinstance(x, SInt):
        return NATIVE
    e = x.e
    if br(z3.Or(e < 0, e > 0x10FFFF)):
        raise ValueError("chr() arg not in range(0x110000)")
    return mk("str", [V.simp(z3.Extract(core.CHAR_BITS - 1, 0, e))])


def m_print(interp, args, kw):
    return None


def m_fspath(interp, args, kw):
    x = args[0]
    if isinstance(x, (SStr, SBytes)):
        return x
    return NATIVE


def _compile(p, flags=0):
    return p if isinstance(p, re.Pattern) else re.compile(p, flags)


def m_re_fn(name):
    def f(interp, args, kw):
        if not has_sym(args) and not has_sym(kw):
            from .interp import Closure
            return NATIVE
        a = list(args)
        flags = kw.pop("flags", 0) if "flags" in kw else 0
        pat = _compile(a[0], flags)
        return pattern_method(interp, pat, name, tuple(a[1:]), kw)
    return f


_HEXD = "0123456789ABCDEF"


def _hex_digit(n4):
    """n4: 4-bit z3 -> char code (21 bits)"""
    z = z3.ZeroExt(core.CHAR_BITS - 4, n4)
    return z3.If(z3.ULT(z, 10), z + 48, z + 55)


def m_quote(interp, args, kw):
    """urllib.parse.quote(string, safe='/') — each UTF-8 byte is kept when it is in
    _ALWAYS_SAFE + safe, else written %XX (upper-case hex)."""
    if not has_sym(args) and not has_sym(kw):
        return NATIVE
    a = list(args)
    string = a[0]
    safe = a[1] if len(a) > 1 else kw.get("safe", "/")
    if (len(a) > 2 and a[2] is not None) or kw.get("encoding") or kw.get("errors"):
        raise Unsupported("quote with encoding/errors")
    if has_sym(safe):
        raise Unsupported("quote with symbolic safe set")
    if isinstance(safe, str):
        safe_b = safe.encode("ascii", "ignore")
    else:
        safe_b = bytes([c for c in safe if c < 128])
    if isinstance(string, (SStr, str)):
        if len(elems(string)) == 0:
            return string
        bs = V.utf8_encode(elems(string))
    elif isinstance(string, (SBytes, bytes)):
        bs = string
    else:
        raise TypeError("quote() doesn't support %s" % type(string).__name__)
    keep = C.CharSet.of(list(urllib.parse._ALWAYS_SAFE_BYTES + safe_b))
    out = []
    for b in elems(bs):
        if isinstance(b, int):
            out.extend(ord(c) for c in urllib.parse.quote_from_bytes(bytes([b]), safe_b))
        elif br(keep.cond(b)):
            out.append(V.simp(z3.ZeroExt(core.CHAR_BITS - 8, b)))
        else:
            out.append(37)
            out.append(V.simp(_hex_digit(z3.Extract(7, 4, b))))
            out.append(V.simp(_hex_digit(z3.Extract(3, 0, b))))
    return mk("str", out)


def m_normalize(interp, args, kw):
    if not has_sym(args):
        return NATIVE
    form, s = args
    # NFKC etc. is C code over large tables: symbolic characters are assumed ASCII here
    core.CUR.assume(V.all_in(elems(s), V.ASCII, empty=True), "unicodedata.normalize on non-ASCII symbolic text")
    return s


_NFKC_DELIMS = None
NETLOC_ASCII = False      # set per item by the harness (quick tier): symbolic netloc characters are assumed ASCII


def _nfkc_delims():
    """code points whose NFKC form contains one of '/?#@:' (computed by asking CPython).  Composition never
    consumes one of these ASCII delimiters (checked exhaustively over all pairs delimiter + code point when the
    set is built), so NFKC(s) contains a delimiter that s does not iff s contains one of these code points."""
    global _NFKC_DELIMS
    if _NFKC_DELIMS is None:
        import unicodedata as U
        bad = []
        for cp in range(0x80, 0x110000):
            if 0xD800 <= cp <= 0xDFFF:
                continue
            n = U.normalize("NFKC", chr(cp))
            if "/" in n or "?" in n or "#" in n or "@" in n or ":" in n:
                bad.append((cp, cp))
        _NFKC_DELIMS = C.CharSet(bad, "nfkc-delims")
    return _NFKC_DELIMS


def m_checknetloc(interp, args, kw):
    """urllib.parse._checknetloc: ValueError iff the netloc holds a character whose NFKC form contains a delimiter"""
    netloc = args[0]
    if not has_sym(netloc):
        return NATIVE
    if NETLOC_ASCII:
        core.CUR.assume(V.all_in(elems(netloc), V.ASCII, empty=True), "quick tier: symbolic netloc characters are ASCII")
        return None
    cs = _nfkc_delims()
    for c in elems(netloc):
        if isinstance(c, int):
            hit = cs.contains_int(c) if hasattr(cs, "contains_int") else any(lo <= c <= hi for lo, hi in cs.ranges)
        else:
            hit = br(cs.cond(c))
        if hit:
            raise ValueError("netloc contains invalid characters under NFKC normalization")
    return None


def m_unescape(interp, args, kw):
    s = args[0]
    if not has_sym(s):
        return NATIVE
    # html.unescape only rewrites character references, which all start with '&'
    core.CUR.assume(z_not(V.contains(elems(s), [38])), "html.unescape of symbolic text containing '&'")
    return s


import unicodedata  # noqa: E402

FUNC_MODELS = {
    len: m_len, isinstance: m_isinstance, str: m_str, repr: m_repr, int: m_int, bool: m_bool,
    sorted: m_sorted, reversed: m_reversed, any: m_any, all: m_all, next: m_next, iter: m_iter,
    list: m_list, tuple: m_tuple, set: m_set, frozenset: m_frozenset, dict: m_dict,
    min: m_minmax("min"), max: m_minmax("max"), callable: m_callable, map: m_map, filter: m_filter,
    enumerate: m_enumerate, zip: m_zip, sum: m_sum, bytearray: m_bytearray, bytes: m_bytes,
    getattr: m_getattr, hasattr: m_hasattr, ord: m_ord, chr: m_chr, print: m_print, os.fspath: m_fspath,
    re.sub: m_re_fn("sub"), re.match: m_re_fn("match"), re.search: m_re_fn("search"),
    re.fullmatch: m_re_fn("fullmatch"), re.split: m_re_fn("split"), re.finditer: m_re_fn("finditer"),
    re.findall: m_re_fn("findall"),
    urllib.parse.quote: m_quote,
    unicodedata.normalize: m_normalize,
    urllib.parse._checknetloc: m_checknetloc,
}
