"""dev helper: translation validation of one function on a skeleton with holes.
usage: tools/tv.py module:function 'prefix' N 'suffix' [json kwargs]"""
import sys, time, json
sys.path.insert(0, '/verif'); sys.path.insert(0, '/repo')
from pysx import harness
from pysx.api import *
fn = harness.resolve(sys.argv[1]); pre = sys.argv[2]; N = int(sys.argv[3]); post = sys.argv[4]
kw = json.loads(sys.argv[5]) if len(sys.argv) > 5 else {}
res = {'ok': 0, 'bad': 0}
def h(st):
    s = cat(pre, sym_str(st, 's', N), post)
    out = attempt(fn, s, **kw)
    m = st.current_model()
    cs = concretize(m, s)
    nat = native_attempt(fn, cs, **kw)
    if same_outcome(m, out, nat): res['ok'] += 1
    else:
        res['bad'] += 1
        if res['bad'] < 6: print("MISMATCH", repr(cs), out, repr(concretize(m, out.value)), nat)
t = time.time()
ex = explore(h, max_seconds=float(os.environ.get('TV_MAX', '120')) if (os:=__import__('os')) else None)
d = ex.stats.as_dict()
print(res, {k: d[k] for k in ('paths','paths_cut','decisions','queries','solver_s','learned_hits','cut_reasons','unsupported')}, ex.inconclusive[:5], round(time.time() - t, 1))
