#!/bin/sh
# like seedeval.sh but takes the patch from /verif/seeded/<id>
SD=$1; WT=$2; TIER=${3:-quick}
B=$(basename $SD); P=${B%-*}
cd "$WT" || exit 2
git checkout -q -- . && git checkout -q --detach $(git -C /repo rev-parse HEAD) && git apply "$SD/patch.diff" || { echo "$B: patch does not apply"; exit 2; }
T0=$(date +%s)
OUT=$(cd /verif && URAL_REPO="$WT" VERIF_EVIDENCE_DIR=/tmp/seed/ev VERIF_REPLAY_DIR=/tmp/seed/replays/$B VERIF_MAX_VIOL=2 ./check "$P" --tier "$TIER" 2>&1)
RC=$?
T1=$(date +%s)
git -C "$WT" checkout -q -- .
N=$(echo "$OUT" | grep -c "^VIOLATION")
echo "$B tier=$TIER rc=$RC violations=$N time=$((T1-T0))s :: $(echo "$OUT" | grep -v '^VIOLATION' | grep -v KNOWN-FINDING | tail -1 | cut -c1-160)"
echo "$OUT" | grep "^  " | head -3 | cut -c1-220
