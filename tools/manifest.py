"""Regenerates MANIFEST.json from the table below (checks that exist) + properties.jsonl."""
import json, os
V = os.path.dirname(os.path.dirname(os.path.abspath(__file__)))
props = [json.loads(l) for l in open(os.path.join(V, "properties.jsonl"))]
CLAIMED = json.load(open(os.path.join(V, "tools", "claimed.json")))
NA = json.load(open(os.path.join(V, "tools", "not_applicable.json")))
checks = []
for p in props:
    pid = p["id"]
    c = CLAIMED.get(pid)
    if not c:
        continue
    checks.append({
        "property_id": pid,
        "quick_cmd": "./check %s --tier quick" % pid,
        "thorough_cmd": "./check %s --tier thorough" % pid,
        "evidence_file": "evidence/%s.json" % pid,
        "replay_cmd_template": "./check %s --replay {path}" % pid,
        "engine": "pysx",
        "level_claimed": {"category": "model_checking", "text": c["text"], "design_ref": c.get("design_ref", "DESIGN.md §5 " + pid)},
        "level_note": c["note"],
        "technique": c.get("technique", "bounded symbolic execution of the real Python source (AST interpreter) with z3 deciding every path and every assertion; counterexamples replayed natively"),
    })
m = {
    "version": 1, "setup_cmd": "./setup.sh",
    "hooks": {"guard": "URAL_VERIF", "enable": "no hooks: checks import ural from /repo's working tree (PYTHONPATH=/repo) and read its source with inspect/ast on every run",
              "baseline_off_cmd": "cd /repo && /venv/bin/python -m pytest -q -p no:cacheprovider", "source_commits": [], "add_only": True},
    "engines": [{"name": "pysx", "path": "pysx/", "serves_properties": sorted(CLAIMED),
                 "kind_free_text": "AST-level symbolic interpreter of the real Python source (ural + pure-Python stdlib below it) with z3 (QF_BV): symbolic characters over the whole code-point domain, forking by re-execution under a set of decided literals (solver queried under assumptions, learned unsat cores), regexes by a backtracking matcher over CPython's own sre parse tree; every path validated natively; counterexamples replayed against /repo before being reported"}],
    "checks": checks,
    "not_applicable": [{"property_id": p["id"], "reason": NA.get(p["id"], "check not built yet (work in progress)")} for p in props if p["id"] not in CLAIMED],
    "notes": "All verdicts are bounded: see each evidence file's coverage.bounds. exit 3 = harness error (never a verdict).",
}
json.dump(m, open(os.path.join(V, "MANIFEST.json"), "w"), indent=1)
print("claimed:", sorted(CLAIMED))
