import json,glob,collections,sys
by=collections.defaultdict(list)
for f in glob.glob('/verif/replays/%s/*.json'%sys.argv[1]):
    r=json.load(open(f)); by[r['label']].append(r['args'])
for k,v in sorted(by.items()):
    print(k,len(v))
    for a in sorted(v,key=lambda a:len(json.dumps(a)))[:int(sys.argv[2]) if len(sys.argv)>2 else 8]: print('    ',json.dumps(a)[:200])
