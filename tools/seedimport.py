"""copies <worktree>/_seed/{A,B} of the given properties into /verif/seeded/<P>-<S>/ (patch, demo, meta)"""
import sys, os, shutil, json
for pid in sys.argv[1:]:
    for s in "AB":
        d = "/tmp/seed/%s/_seed/%s" % (pid, s)
        if not os.path.isdir(d):
            continue
        dst = "/verif/seeded/%s-%s" % (pid, s)
        os.makedirs(dst, exist_ok=True)
        for fn in ("patch.diff", "demo.py", "meta.txt"):
            if os.path.exists(os.path.join(d, fn)):
                shutil.copy(os.path.join(d, fn), os.path.join(dst, fn))
        print("imported", dst)
