#!/bin/sh
# usage: tools/seedconfirm.sh <seed dir under /verif/seeded> <scratch worktree>
# confirms a seeded change on the current /repo HEAD: applies, baseline tests pass, demo fails; clean tree: demo passes
SD=$1; WT=$2
cd "$WT" || exit 2
git checkout -q -- . ; git clean -fdq -e _seed >/dev/null 2>&1; git checkout -q --detach $(git -C /repo rev-parse HEAD)
mkdir -p _confirm && cp "$SD/demo.py" _confirm/demo.py
PYTHONPATH="$WT" /venv/bin/python _confirm/demo.py >/dev/null 2>&1; CLEAN=$?
if ! git apply "$SD/patch.diff" 2>/dev/null; then echo "$(basename $SD): patch does not apply on current HEAD (clean demo rc=$CLEAN)"; rm -rf _confirm; exit 0; fi
T=$(/venv/bin/python -m pytest -q -p no:cacheprovider 2>&1 | tail -1)
PYTHONPATH="$WT" /venv/bin/python _confirm/demo.py >/dev/null 2>&1; PATCHED=$?
git checkout -q -- .; rm -rf _confirm
echo "$(basename $SD): clean demo rc=$CLEAN; patched: tests [$T] demo rc=$PATCHED"
