"""usage: tools/seedimport2.py <srcroot> <letters> <P> [<P> ...]
copies <srcroot>/<P>/_seed/{A,B} into /verif/seeded/<P>-<letters[0]>, <P>-<letters[1]> (patch, demo, meta.txt -> meta.json 'needs')"""
import sys, os, shutil, json
root, letters = sys.argv[1], sys.argv[2]
ROUND = {"CD": "second or third round", "EF": "fourth round"}.get(letters, "later round")
for pid in sys.argv[3:]:
    for s, t in zip("AB", letters):
        d = "%s/%s/_seed/%s" % (root, pid, s)
        if not os.path.isdir(d):
            continue
        dst = "/verif/seeded/%s-%s" % (pid, t)
        os.makedirs(dst, exist_ok=True)
        for fn in ("patch.diff", "demo.py", "meta.txt"):
            if os.path.exists(os.path.join(d, fn)):
                shutil.copy(os.path.join(d, fn), os.path.join(dst, fn))
        meta = {"property": pid, "seed": t, "source": "independent sub-agent given only the property text and a scratch worktree (%s)" % ROUND + "",
                "needs": open(os.path.join(dst, "meta.txt")).read().strip() if os.path.exists(os.path.join(dst, "meta.txt")) else "",
                "ran": "tools/seedeval2.sh /verif/seeded/%s-%s <scratch worktree>  (= URAL_REPO=<worktree with patch> ./check %s --tier quick)" % (pid, t, pid)}
        json.dump(meta, open(os.path.join(dst, "meta.json"), "w"), indent=1, ensure_ascii=False)
        print("imported", dst)
