"""usage: tools/seedresults.py <log> [<log> ...]
Reads the lines printed by tools/seedeval2.sh (later logs override earlier ones), records the result in each
seeded/<id>/meta.json (check_result / check_result_thorough) and regenerates seeded/RESULTS.md."""
import sys, re, os, json, glob
LINE = re.compile(r"^(C\d\d-[A-Z]) tier=(\w+) rc=(\d+) violations=(\d+) time=(\d+)s")
res = {}
for fn in sys.argv[1:]:
    for l in open(fn, errors="replace"):
        m = LINE.match(l)
        if m:
            res[(m.group(1), m.group(2))] = {"tier": m.group(2), "rc": int(m.group(3)), "violations": int(m.group(4)),
                                             "time_s": int(m.group(5)), "log": os.path.basename(fn)}
rows = []
for d in sorted(glob.glob("/verif/seeded/C??-?")):
    sid = os.path.basename(d)
    mp = os.path.join(d, "meta.json")
    meta = json.load(open(mp))
    for tier, key in (("quick", "check_result"), ("thorough", "check_result_thorough")):
        r = res.get((sid, tier))
        if r:
            meta[key] = r
    json.dump(meta, open(mp, "w"), indent=1, ensure_ascii=False)
    def verdict(r):
        if not r:
            return "-"
        if r["rc"] == 1 and r["violations"] > 0:
            return "yes (%d, %ds)" % (r["violations"], r["time_s"])
        if r["rc"] == 0:
            return "NO (%ds)" % r["time_s"]
        return "inconclusive (exit %d)" % r["rc"]
    rows.append("| %s | %s | %s | %s |" % (sid, verdict(meta.get("check_result")), verdict(meta.get("check_result_thorough")),
                                          meta.get("needs", "").replace("\n", " ").replace("|", "/")[:150]))
with open("/verif/seeded/RESULTS.md", "w") as f:
    f.write("# Seeded changes vs checks (last evaluation of each)\n\n'yes (n, t)' = the check exited 1 with n VIOLATION lines after t seconds; "
            "the thorough column is only filled where it was run (quick misses and spot checks).\n\n"
            "| seed | quick | thorough | what it needs |\n|---|---|---|---|\n")
    f.write("\n".join(rows) + "\n")
print("\n".join(rows))
