"""dev helper: run one check item in-process and print its summary.
usage: tools/item.py <check module> <fn> '<json params>' [defer_depth]"""
import sys, time, json
import os; sys.path.insert(0, '/verif'); sys.path.insert(0, os.environ.get('URAL_REPO', '/repo'))
from pysx import harness
it = {"mod": "checks." + sys.argv[1], "fn": sys.argv[2], "params": json.loads(sys.argv[3]), "yield_s": 1e9, "pid": sys.argv[1]}
if len(sys.argv) > 4:
    it["defer_depth"] = int(sys.argv[4])
r = harness.run_item(it)
print({k: r[k] for k in ('paths', 'cut', 'reached', 'discharged', 'validated', 'n_mismatch', 'queries', 'solver_s', 'wall_s', 'n_inconclusive', 'labels')})
print('violations', r['violations'][:5]); print('mismatch', r['mismatch'][:3]); print('err', r['error']); print('unsupported', r['unsupported'], r['cut_reasons'], r['inconclusive'][:3], len(r['deferred']))
