#!/bin/sh
# runs every quick check once and prints wall / cpu / verdict line
for c in C01 C02 C03 C04 C05 C06 C07 C08 C09 C10 C11 C12 C13 C14 C15 C16 C17 C18 C19 C20; do
  /usr/bin/time -f "$c wall=%es cpu=%Us" ./check $c 2>&1 | grep -E "wall=|quick:|^VIOLATION|HARNESS|KNOWN|worker for item|ENGINE-MISMATCH" | grep -v "^VIOLATION" | cut -c1-230
done
