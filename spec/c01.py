"""C01 — canonicalize_url never changes where the URL leads."""
from pysx.lib import memo_call
from spec import url as U
from ural.canonicalize_url import canonicalize_url


def canon(u, quoted, strip_fragment, default_protocol):
    return canonicalize_url(u, quoted=quoted, strip_fragment=strip_fragment, default_protocol=default_protocol)


def _both(u, quoted, strip_fragment, default_protocol):
    """parsed input and parsed output, or None when the input does not parse (outside the property)"""
    pin = memo_call(U.parse, u, default_protocol)
    if pin is None:
        return None
    out = memo_call(canon, u, quoted, strip_fragment, default_protocol)
    pout = memo_call(U.parse, out, default_protocol, False)
    return pin, pout


def result_parses(u, quoted, strip_fragment, default_protocol):
    b = _both(u, quoted, strip_fragment, default_protocol)
    return b is None or b[1] is not None


def same_scheme(u, quoted, strip_fragment, default_protocol):
    b = _both(u, quoted, strip_fragment, default_protocol)
    if b is None or b[1] is None:
        return True
    return b[0][0].scheme == b[1][0].scheme


def same_userinfo(u, quoted, strip_fragment, default_protocol):
    b = _both(u, quoted, strip_fragment, default_protocol)
    if b is None or b[1] is None:
        return True
    (_, u0, p0, _, _), (_, u1, p1, _, _) = b
    return U.opt_decode(u0) == U.opt_decode(u1) and U.opt_decode(p0) == U.opt_decode(p1)


def _idn_canon(host):
    """lower-cased host with every punycode label CPython's idna codec accepts written in Unicode (others kept)"""
    out = []
    for lab in host.lower().split("."):
        if lab.startswith("xn--"):
            try:
                lab = lab.encode("ascii").decode("idna")
            except UnicodeError:
                pass
        out.append(lab)
    return ".".join(out)


def same_host(u, quoted, strip_fragment, default_protocol):
    b = _both(u, quoted, strip_fragment, default_protocol)
    if b is None or b[1] is None:
        return True
    h0, h1 = b[0][3], b[1][3]
    if h0 is None or h1 is None:
        return (h0 is None) == (h1 is None) or h0 == "" or h1 == ""
    return h0.lower() == h1.lower() or _idn_canon(h0) == _idn_canon(h1)


def same_port(u, quoted, strip_fragment, default_protocol):
    b = _both(u, quoted, strip_fragment, default_protocol)
    if b is None or b[1] is None:
        return True
    return U.effective_port(b[0][0].scheme, b[0][4]) == U.effective_port(b[1][0].scheme, b[1][4])


def same_path(u, quoted, strip_fragment, default_protocol):
    b = _both(u, quoted, strip_fragment, default_protocol)
    if b is None or b[1] is None:
        return True
    return U.path_segments(b[0][0].path) == U.path_segments(b[1][0].path)


def same_query(u, quoted, strip_fragment, default_protocol):
    b = _both(u, quoted, strip_fragment, default_protocol)
    if b is None or b[1] is None:
        return True
    return U.query_items(b[0][0].query) == U.query_items(b[1][0].query)


def same_fragment(u, quoted, strip_fragment, default_protocol):
    b = _both(u, quoted, strip_fragment, default_protocol)
    if b is None or b[1] is None:
        return True
    if strip_fragment:
        return U.opt_decode(b[1][0].fragment) is None
    return U.opt_decode(b[0][0].fragment) == U.opt_decode(b[1][0].fragment)


ALL = [("result_parses", result_parses), ("same_scheme", same_scheme), ("same_userinfo", same_userinfo),
       ("same_host", same_host), ("same_port", same_port), ("same_path", same_path),
       ("same_query", same_query), ("same_fragment", same_fragment)]
