"""C19 — platform parsers are total and agree with the canonical urls they generate."""
from ural import facebook as FB, youtube as YT, twitter as TW, instagram as IG, telegram as TG, google as GG

TOTAL = {
    "parse_facebook_url": FB.parse_facebook_url, "has_facebook_comments": FB.has_facebook_comments,
    "is_facebook_post_url": FB.is_facebook_post_url, "is_facebook_link": FB.is_facebook_link,
    "extract_url_from_facebook_link": FB.extract_url_from_facebook_link, "is_facebook_url": FB.is_facebook_url,
    "parse_youtube_url": YT.parse_youtube_url, "extract_video_id_from_youtube_url": YT.extract_video_id_from_youtube_url,
    "normalize_youtube_url": YT.normalize_youtube_url, "is_youtube_url": YT.is_youtube_url,
    "parse_twitter_url": TW.parse_twitter_url, "extract_screen_name_from_twitter_url": TW.extract_screen_name_from_twitter_url,
    "is_twitter_url": TW.is_twitter_url,
    "parse_instagram_url": IG.parse_instagram_url, "extract_username_from_instagram_url": IG.extract_username_from_instagram_url,
    "is_instagram_url": IG.is_instagram_url,
    "parse_telegram_url": TG.parse_telegram_url, "extract_channel_name_from_telegram_url": TG.extract_channel_name_from_telegram_url,
    "is_telegram_url": TG.is_telegram_url,
    "parse_google_drive_url": GG.parse_google_drive_url, "extract_id_from_google_drive_url": GG.extract_id_from_google_drive_url,
    "is_amp_url": GG.is_amp_url, "is_google_link": GG.is_google_link, "extract_url_from_google_link": GG.extract_url_from_google_link,
}
CONVERT = {"convert_facebook_url_to_mobile": FB.convert_facebook_url_to_mobile,
           "convert_telegram_url_to_public": TG.convert_telegram_url_to_public}
FAMILY = {
    "facebook": ["parse_facebook_url", "has_facebook_comments", "is_facebook_post_url", "is_facebook_link", "extract_url_from_facebook_link"],
    "youtube": ["parse_youtube_url", "extract_video_id_from_youtube_url", "normalize_youtube_url"],
    "twitter": ["parse_twitter_url", "extract_screen_name_from_twitter_url"],
    "instagram": ["parse_instagram_url", "extract_username_from_instagram_url"],
    "telegram": ["parse_telegram_url", "extract_channel_name_from_telegram_url"],
    "google": ["parse_google_drive_url", "extract_id_from_google_drive_url", "is_amp_url", "is_google_link", "extract_url_from_google_link"],
}


def is_total(fname, url):
    """returns (anything) without raising"""
    try:
        TOTAL[fname](url)
    except Exception:
        return False
    return True


def convert_only_raises_its_documented_error(fname, url):
    try:
        r = CONVERT[fname](url)
    except TypeError:
        return True
    except Exception:
        return False
    return isinstance(r, str)


def relative_facebook_is_total(url):
    try:
        FB.parse_facebook_url(url, allow_relative_urls=True)
        FB.has_facebook_comments(url, allow_relative_urls=True)
    except Exception:
        return False
    return True


def _plain(x):
    """a field that looks like an id / handle: made of letters, digits, '_', '-', '.', not dots only"""
    if x is None:
        return True
    if x == "" or x.strip(".") == "":
        return False
    for c in x:
        if not (c.isascii() and (c.isalnum() or c in "_-.")):
            return False
    return True


def youtube_record_is_valid_and_round_trips(url, fix):
    try:
        r = YT.parse_youtube_url(url, fix_common_mistakes=fix)
    except Exception:
        return True           # totality is another obligation
    if r is None:
        return True
    if isinstance(r, (YT.YoutubeVideo, YT.YoutubeShort)) and not YT.is_youtube_video_id(r.id):
        return False
    for f_ in r:
        if not _plain(f_):
            return True       # not a well-formed handle: the round trip is left open
    try:
        n = YT.normalize_youtube_url(url)
        if YT.normalize_youtube_url(n) != n:
            return False
        if fix:
            return YT.parse_youtube_url(n) == YT.parse_youtube_url(url)
    except Exception:
        return False
    return True


def instagram_record_is_valid(url):
    try:
        r = IG.parse_instagram_url(url)
    except Exception:
        return True
    if r is None:
        return True
    if isinstance(r, (IG.InstagramPost, IG.InstagramReel)) and not IG.is_instagram_post_shortcode(r.id):
        return False
    if isinstance(r, IG.InstagramUser) and not IG.is_instagram_username(r.name):
        return False
    if isinstance(r, IG.InstagramPost) and r.name is not None and not IG.is_instagram_username(r.name):
        return False
    return True


def telegram_record_is_valid(url):
    try:
        r = TG.parse_telegram_url(url)
    except Exception:
        return True
    if isinstance(r, TG.TelegramMessage) and not TG.is_telegram_message_id(r.id):
        return False
    return True


def facebook_record_round_trips(url):
    try:
        r = FB.parse_facebook_url(url)
    except Exception:
        return True
    if r is None:
        return True
    for n_ in r.__slots__:
        if not _plain(getattr(r, n_)):
            return True       # not a well-formed id / handle
    try:
        u2 = r.url
        r2 = FB.parse_facebook_url(u2)
    except Exception:
        return False
    return r2 == r


def google_record_round_trips(url):
    try:
        r = GG.parse_google_drive_url(url)
    except Exception:
        return True
    if r is None:
        return True
    if not _plain(r.id):
        return True
    try:
        r2 = GG.parse_google_drive_url(r.url)
    except Exception:
        return False
    return r2 == r
