"""C11 — LRU tries return the value of the longest stored URL prefix."""
from ural.lru import LRUTrie, CanonicalizedLRUTrie, NormalizedLRUTrie, FingerprintedLRUTrie, lru_stems, serialize_lru
from ural.canonicalize_url import canonicalize_url
from ural.normalize_url import normalize_url
from ural.fingerprint_url import fingerprint_url

CLASSES = {"plain": LRUTrie, "canonicalized": CanonicalizedLRUTrie, "normalized": NormalizedLRUTrie, "fingerprinted": FingerprintedLRUTrie}


def _clean(stems):
    return [s for s in stems if s != "p:"]


def _ref_match(stored, q):
    """value of the stored stem list that is the longest prefix of q; last write wins"""
    best = None
    best_len = -1
    for stems, v in stored:
        if len(stems) <= len(q) and q[:len(stems)] == stems and len(stems) >= best_len:
            best = v
            best_len = len(stems)
    return best


def stems_api_matches_reference(stem_lists, query_stems, as_string):
    """set_lru / match_lru on stem lists (or their serialized form) vs the longest-prefix reference"""
    if as_string:
        for st in stem_lists + [query_stems]:
            if len(st) == 0:
                return True   # no url has an empty LRU: the serialized form of [] is outside
    t = LRUTrie()
    stored = []
    for i, st in enumerate(stem_lists):
        t.set_lru(serialize_lru(st) if as_string else st, i)
        stored.append((_clean(st), i))
    q = query_stems
    got = t.match_lru(serialize_lru(q) if as_string else q)
    if got != _ref_match(stored, _clean(q)):
        return False
    distinct = []
    for s, _ in stored:
        if s not in distinct:
            distinct.append(s)
    if len(t) != len(distinct):
        return False
    vals = list(t)
    if len(vals) != len(distinct):
        return False
    for s in distinct:
        if _ref_match([(s2, v) for s2, v in stored if s2 == s], s) not in vals:
            return False
    return True


def url_api_equals_stems_api(kind, urls, query, suffix_aware):
    """set(url) / match(url) == set_lru / match_lru on the url's stems"""
    cls = CLASSES[kind]
    try:
        a = cls(suffix_aware=suffix_aware)
        b = LRUTrie(suffix_aware=suffix_aware)
        for i, u in enumerate(urls):
            a.set(u, i)
            b.set_lru(a.tokenize(u), i)
        qs = a.tokenize(query)
    except ValueError:
        return True           # unparseable url
    return a.match(query) == b.match_lru(qs) and len(a) == len(b) and sorted(a) == sorted(b)


def same_image_is_same_key(kind, u, v, suffix_aware):
    """in a variant trie, two urls the variant's function maps to the same string are one key"""
    f = {"canonicalized": canonicalize_url, "normalized": normalize_url, "fingerprinted": fingerprint_url}[kind]
    try:
        fu, fv = f(u), f(v)
    except Exception:
        return True
    if fu != fv:
        return True
    t = CLASSES[kind](suffix_aware=suffix_aware)
    try:
        t.set(u, "A")
        return t.match(v) == "A" and len(t) == 1
    except ValueError:
        return True


def variant_tokenization(kind, u, suffix_aware):
    """the key a variant trie stores for u is the stem list of the variant's image of u"""
    f = {"canonicalized": canonicalize_url, "normalized": normalize_url, "fingerprinted": fingerprint_url}[kind]
    try:
        img = f(u)
        ref = lru_stems(img, suffix_aware=suffix_aware)
    except Exception:
        return True
    from urllib.parse import urlsplit
    try:
        if not urlsplit(img if "://" in img[:12] else "http://" + img).hostname:
            return True
    except ValueError:
        return True
    if kind != "canonicalized":
        ref = [s for s in ref if not s.startswith("s:")]
        if isinstance(normalize_url(u, unsplit=False), str):
            return True       # unparseable url handed back unchanged: not a url
    t = CLASSES[kind](suffix_aware=suffix_aware)
    return t.tokenize(u) == ref
