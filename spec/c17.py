"""C17 — HTML extraction is str/bytes-independent; links are followable and distinct."""
import re
from urllib.parse import urljoin
from ural.urls_from_html import urls_from_html
from ural.links_from_html import links_from_html
from ural.canonicalize_url import canonicalize_url
from ural.should_follow_href import should_follow_href
from ural.is_url import is_url

_HTTP = re.compile(r"^https?://", re.I)
_PROTO = re.compile(r"^[a-zA-Z]{0,64}:?//")
_ABSOLUTE = re.compile(r"^[a-zA-Z]{1,64}://")


def str_and_bytes_agree(doc):
    a = list(urls_from_html(doc))
    b = list(urls_from_html(doc.encode("utf-8")))
    return a == b


def script_blocks_are_skipped(open_name, close_name, attrs):
    """anchors inside a script block (tag name in any letter case) are not yielded, those around it are"""
    doc = ('<a href="http://x.fr/first">1</a><' + open_name + attrs + '>document.write(\'<a href="http://in.fr/">i</a>\');</'
           + close_name + '><a href="/out">o</a>')
    exp = ["http://x.fr/first", "/out"]
    return list(urls_from_html(doc)) == exp and list(urls_from_html(doc.encode("utf-8"))) == exp


def hrefs_are_stripped(doc):
    for u in urls_from_html(doc):
        if u != u.strip():
            # unescaping may reveal whitespace (&#32;): only raw whitespace is covered by "stripped"
            if "&" not in doc:
                return False
    return True


def links_postconditions(base, doc, canonicalize, unique, strip_fragment):
    try:
        links = list(links_from_html(base, doc, canonicalize=canonicalize, unique=unique, strip_fragment=strip_fragment))
    except Exception:
        return False
    ref_base = canonicalize_url(base, strip_fragment=strip_fragment) if canonicalize else base
    seen = []
    for l in links:
        if not _HTTP.match(l):
            return False
        if not is_url(l, require_protocol=True, tld_aware=True, allow_spaces_in_path=True, only_http_https=True):
            # a canonicalized link is judged before canonicalization: it must at least still be an http(s) url
            if not canonicalize:
                return False
        if l == ref_base:
            return False
        if canonicalize and canonicalize_url(l, strip_fragment=strip_fragment) != l:
            return False
        if unique:
            if l in seen:
                return False
            seen.append(l)
    return True


def single_href_is_resolved(base, href, canonicalize, strip_fragment):
    """a document with one anchor: the link is the href resolved against the base (when it is followable)"""
    doc = '<p><a class="c" href="' + href + '">t</a></p>'
    if '"' in href or "&" in href or "<" in href or ">" in href:
        return True           # would change the tag / needs unescaping: covered by the other obligations
    try:
        links = list(links_from_html(base, doc, canonicalize=canonicalize, strip_fragment=strip_fragment))
    except Exception:
        return False
    h = href.strip()
    if not h or not should_follow_href(h):
        return links == []
    if _ABSOLUTE.match(h):
        target = h
    elif _PROTO.match(h) and not h.startswith("//"):
        return True           # 'L//x', '://x': ural reads a protocol where there is no ':'; neither absolute nor relative
    else:
        # relative reference, '//host/path' (relative to the protocol of the base) included
        try:
            target = urljoin(canonicalize_url(base, strip_fragment=strip_fragment) if canonicalize else base, h)
        except ValueError:
            return links == []
    ok = is_url(target, require_protocol=True, tld_aware=True, allow_spaces_in_path=True, only_http_https=True)
    if canonicalize and ok:
        target = canonicalize_url(target, strip_fragment=strip_fragment)
    ref_base = canonicalize_url(base, strip_fragment=strip_fragment) if canonicalize else base
    if not ok or target == ref_base:
        return links == []
    return links == [target]


from html import unescape


def href_is_extracted(pre, href, post, quote):
    """a document with one anchor outside any script block yields exactly its href, stripped and unescaped
    (quote: the quoting character, '' for an unquoted value)"""
    for c in href:
        if c in "<>" or c == quote or (quote == "" and (c.isspace() or c in "\"'")):
            return True       # would end the attribute / the tag early: another document
    doc = pre + href + post
    return list(urls_from_html(doc)) == [unescape(href.strip())] and list(urls_from_html(doc.encode("utf-8"))) == [unescape(href.strip())]
