"""C14 — safe quoting / unquoting preserves decoded content and delimiters."""
from pysx.lib import and_, or_, not_, implies, eq, count_of, chars_all_in, no_new_in_class, \
    same_except, char_in, char_eq, lower_hex_to_upper, memo_call
from spec.common import pct_decode, HEX_RANGES, CONTROL_RANGES, QUOTED_OUTPUT_RANGES


def unquote_same_bytes(f, s):
    return pct_decode(memo_call(f, s)) == memo_call(pct_decode, s)


def unquote_idempotent(f, s):
    r = memo_call(f, s)
    return f(r) == r


def unquote_no_raw_space(f, s):
    return " " not in memo_call(f, s)


def unquote_no_new_control(f, s):
    return no_new_in_class(s, memo_call(f, s), CONTROL_RANGES)


def unquote_keeps_delimiters(f, s, delims):
    out = memo_call(f, s)
    return and_(*[eq(count_of(out, d), count_of(s, d)) for d in delims])


def quote_ascii_wellformed(f, s):
    out = memo_call(f, s)
    n = len(out)
    conds = [chars_all_in(out, QUOTED_OUTPUT_RANGES)]
    for i in range(n):
        if i + 2 < n:
            conds.append(implies(char_eq(out[i], "%"),
                                 and_(char_in(out[i + 1], HEX_RANGES), char_in(out[i + 2], HEX_RANGES))))
        else:
            conds.append(not_(char_eq(out[i], "%")))
    return and_(*conds)


def quote_same_bytes(f, s):
    return pct_decode(memo_call(f, s)) == memo_call(pct_decode, s)


def quote_idempotent(f, s):
    r = memo_call(f, s)
    return f(r) == r


def upper_only_hex_in_escapes(f, s):
    out = memo_call(f, s)
    n = len(s)
    if len(out) != n:
        return False

    def esc(p):
        if p < 0 or p + 2 >= n:
            return False
        return and_(char_eq(s[p], "%"), char_in(s[p + 1], HEX_RANGES), char_in(s[p + 2], HEX_RANGES))
    allowed = [and_(or_(esc(i - 1), esc(i - 2)), lower_hex_to_upper(s[i], out[i])) for i in range(n)]
    return same_except(s, out, allowed)
