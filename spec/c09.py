"""C09 — HostnameTrieSet = all hosts at or under the added domains."""
from ural.classes.hostname_trie_set import HostnameTrieSet


def _labels(host):
    return host.lower().split(".")


def _under(q, h):
    """q equals h or is a whole-label subdomain of h"""
    ql, hl = _labels(q), _labels(h)
    return len(ql) >= len(hl) and ql[len(ql) - len(hl):] == hl


def _minimal(hosts):
    """added hosts that are not (strict or equal, later duplicate) subdomains of another added host"""
    out = []
    for i, h in enumerate(hosts):
        keep = True
        for j, g in enumerate(hosts):
            if i == j:
                continue
            if _under(h, g):
                if _labels(h) != _labels(g) or j < i:
                    keep = False
                    break
        if keep:
            out.append(".".join(_labels(h)))
    return out


def trie_set_matches_reference(hosts, query_host, pre, post):
    t = HostnameTrieSet()
    for h in hosts:
        t.add(h)
    expected = False
    for h in hosts:
        if _under(query_host, h):
            expected = True
    url = pre + query_host + post
    if bool(t.match(url)) != expected:
        return False
    mins = _minimal(hosts)
    if len(t) != len(mins):
        return False
    got = list(t)
    if len(got) != len(mins):
        return False
    for g in got:
        if g not in mins:
            return False
    for i in range(len(got)):
        for j in range(i + 1, len(got)):
            if got[i] == got[j]:
                return False
    return True


def order_independent(hosts, perm, query_host):
    t1 = HostnameTrieSet()
    t2 = HostnameTrieSet()
    for h in hosts:
        t1.add(h)
    for i in perm:
        t2.add(hosts[i])
    if bool(t1.match(query_host)) != bool(t2.match(query_host)):
        return False
    return len(t1) == len(t2)


def idn_history(hosts, canon_hosts, query_host, canon_query, pre, post):
    """hostnames whose internationalized label is spelled in punycode or in Unicode (canon_*: all in Unicode):
    the spelling never matters"""
    t = HostnameTrieSet()
    for h in hosts:
        t.add(h)
    expected = False
    for h in canon_hosts:
        if _under(canon_query, h):
            expected = True
    if bool(t.match(pre + query_host + post)) != expected:
        return False
    mins = _minimal(canon_hosts)
    if len(t) != len(mins):
        return False
    got = list(t)
    if len(got) != len(mins):
        return False
    for g in got:
        if g not in mins:
            return False
    return True
