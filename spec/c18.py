"""C18 — site-membership and simple predicates depend only on the documented component."""
import re
from urllib.parse import urlsplit
from ural.facebook import is_facebook_url
from ural.twitter import is_twitter_url
from ural.instagram import is_instagram_url
from ural.telegram import is_telegram_url
from ural.youtube import is_youtube_url, YOUTUBE_DOMAINS
from ural.is_shortened_url import is_shortened_url, SHORTENER_DOMAINS
from ural.should_resolve import should_resolve, SHOULD_RESOLVE_DOMAINS
from ural.is_homepage import is_homepage
from ural.could_be_html import could_be_html
from ural.has_special_host import has_special_host
from ural.get_hostname import get_hostname

_PROTO = re.compile(r"^[a-zA-Z]{0,64}:?//")
_HTTP = re.compile(r"^(?:https?:)?//", re.I)
_L_PATH = re.compile(r"^/[0-9a-zA-Z]{3,}/?$")
_HOME = ("", "/", "/index", "/home")

SITES = {
    "facebook": (is_facebook_url, None),
    "twitter": (is_twitter_url, ("twitter.com", "x.com")),
    "instagram": (is_instagram_url, ("instagram.com",)),
    "telegram": (is_telegram_url, ("telegram.org", "telegram.me", "t.me")),
}


def _ensure(url):
    u = url
    if not _PROTO.match(u):
        u = "http://" + u
    elif u.startswith("//"):
        u = "http:" + u
    return u


def _scope(url):
    """(parsed, host) for a url these predicates are meant for, else None: the standard parser accepts it,
    it has a host made of non-empty labels, a valid port, and no whitespace / control character inside"""
    u = url.strip()
    for c in u:
        if c.isspace() or ord(c) < 32 or 127 <= ord(c) <= 159:
            return None
    try:
        parsed = urlsplit(_ensure(u))
        host = parsed.hostname
        parsed.port
    except ValueError:
        return None
    if not host:
        return None
    h = host[:-1] if host.endswith(".") else host
    if h == "" or h.startswith(".") or ".." in h:
        return None
    return parsed, host


def _under(host, domain):
    return host == domain or host.endswith("." + domain)


def _site_host(site, host):
    host = host.lower()
    if host.endswith("."):
        host = host[:-1]
    if site == "facebook":
        labels = host.split(".")
        if _under(host, "fb.me"):
            return True
        return len(labels) >= 2 and labels[-2] == "facebook" and labels[-1] != ""
    for d in SITES[site][1]:
        if _under(host, d):
            return True
    return False


def site_predicate(site, url):
    """string form == pre-parsed form == 'host equals or is a whole-label subdomain of a site domain'.
    The string form only speaks of http(s) / scheme-less / '//' urls."""
    pred = SITES[site][0]
    sc = _scope(url)
    if sc is None:
        return True
    parsed, host = sc
    expected = _site_host(site, host)
    if bool(pred(parsed)) != expected:
        return False
    if _PROTO.match(url) and not _HTTP.match(url):
        return True            # other scheme: the string form is out of scope
    return bool(pred(url)) == expected


def _listed(host, domains):
    host = host.lower()
    if host.endswith("."):
        host = host[:-1]
    for d in domains:
        if _under(host, d.lower()):
            return True
    return False


def _homepage(path):
    p = path.strip().rstrip("/")
    dot = p.rfind(".")
    slash = p.rfind("/")
    if dot > slash + 1 and dot > 0:
        # splitext: the extension starts at the last dot of the last segment (leading dots aside)
        seg = p[slash + 1:dot]
        if seg.strip(".") != "":
            p = p[:dot]
    return p in _HOME


def youtube_predicate(url):
    sc = _scope(url)
    if sc is None or sc[1].endswith(".") or url != url.strip():
        return True           # fully qualified spelling 'youtu.be.': left open (the tries compare labels literally)
    parsed, host = sc
    expected = _listed(host, YOUTUBE_DOMAINS)
    return bool(is_youtube_url(url)) == expected and bool(is_youtube_url(parsed)) == expected


def shortener_predicates(url):
    sc = _scope(url)
    if sc is None or sc[1].endswith(".") or url != url.strip():
        return True
    parsed, host = sc
    home = _homepage(parsed.path)
    l_rule = host.lower().startswith("l.") and _L_PATH.match(parsed.path) is not None
    exp_short = (not home) and (l_rule or _listed(host, SHORTENER_DOMAINS))
    exp_resolve = (not home) and (l_rule or _listed(host, SHORTENER_DOMAINS + SHOULD_RESOLVE_DOMAINS))
    a, b = bool(is_shortened_url(url)), bool(should_resolve(url))
    if a != exp_short or b != exp_resolve:
        return False
    if bool(is_shortened_url(parsed)) != exp_short or bool(should_resolve(parsed)) != exp_resolve:
        return False
    return (not a) or b


def same_answer(pred_name, u, v):
    """u and v agree on the component the predicate documents: same answer"""
    pred = {"is_homepage": is_homepage, "could_be_html": could_be_html, "has_special_host": has_special_host,
            "get_hostname": get_hostname}[pred_name]
    try:
        urlsplit(_ensure(u))
        urlsplit(_ensure(v))
    except ValueError:
        return True
    return pred(u) == pred(v)
