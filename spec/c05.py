"""C05 — normalize_url only deletes irrelevant parts, honours its options, never raises."""
import re
from pysx.lib import memo_call
from spec import url as U
from spec.common import pct_decode
from ural.normalize_url import normalize_url

OPTS = ("sort_query", "strip_authentication", "strip_trailing_slash", "strip_index", "strip_protocol",
        "strip_irrelevant_subdomains", "strip_fragment", "normalize_amp", "fix_common_mistakes",
        "infer_redirection", "quoted", "platform_aware")
_EXPLICIT_SCHEME = re.compile(r"^[a-zA-Z]{1,64}:?//")
IRRELEVANT_LABEL = re.compile(r"^(?:www\d?|mobile|amp|m)$")


def _call(u, o):
    kw = {}
    for name, v in zip(OPTS, o):
        kw[name] = v
    return normalize_url(u, **kw)


def never_raises(u, o):
    try:
        r = memo_call(_call, u, o)
    except Exception:
        return False
    return isinstance(r, str)


def unparseable_returned_unchanged(u, o):
    """(infer_redirection off) a url the standard parser rejects comes back as it was given"""
    if U.parse(u, "http") is not None:
        return True
    try:
        r = memo_call(_call, u, o)
    except Exception:
        return True           # reported by never_raises
    return r == u


def _parts(u, **kw):
    """parsed input and the unsplit=False result, or None when out of scope"""
    pin = U.parse(u, "http")
    if pin is None:
        return None
    try:
        out = normalize_url(u, unsplit=False, infer_redirection=False, **kw)
    except Exception:
        return None           # reported by never_raises
    if isinstance(out, str):
        return None
    return pin, out


def host_only_loses_whole_irrelevant_labels(u, subdomains, amp):
    b = _parts(u, strip_irrelevant_subdomains=subdomains, normalize_amp=amp)
    if b is None:
        return True
    hin = b[0][3]
    hout = b[1].hostname
    if not hin:
        return not hout
    if hout is None:
        hout = ""
    lin = hin.lower().split(".")
    lout = hout.split(".")
    # every output label must be matched, in order; skipped input labels must be irrelevant ones
    i = 0
    first = True
    for lab in lout:
        while True:
            if i >= len(lin):
                return False
            cand = lin[i]
            i += 1
            if cand == lab:
                break
            if first and amp and cand == "amp-" + lab:
                break
            if not (subdomains and IRRELEVANT_LABEL.match(cand) is not None and (amp or cand != "amp")):
                return False
        first = False
    for rest in lin[i:]:
        if not (subdomains and IRRELEVANT_LABEL.match(rest) is not None):
            return False
    return True


def non_default_port_kept(u):
    b = _parts(u)
    if b is None:
        return True
    scheme, port = b[0][0].scheme, b[0][4]
    try:
        pout = b[1].port
    except ValueError:
        return False
    if port is None or port == 80 or port == 443:
        return True           # may be dropped
    return pout == port


def query_items_are_a_subset(u, sort_query):
    b = _parts(u, sort_query=sort_query, fix_common_mistakes=False)
    if b is None:
        return True
    qin = U.query_items(b[0][0].query)
    qout = U.query_items(b[1].query)
    if sort_query:
        # each output item is an input item, with multiplicity
        pool = list(qin)
        for it in qout:
            if it not in pool:
                return False
            pool.remove(it)
        return True
    # unsorted: a subsequence of the input items
    i = 0
    for it in qout:
        while i < len(qin) and qin[i] != it:
            i += 1
        if i >= len(qin):
            return False
        i += 1
    return True


def protocol_kept_when_asked(u):
    """strip_protocol=False keeps the scheme and changes nothing else"""
    pin = U.parse(u, "http")
    cleaned = U._CTRL.sub("", u).strip()
    if pin is None or not _EXPLICIT_SCHEME.match(cleaned) or pin[0].scheme == "":
        return True           # no scheme of its own ('x.fr', '//x.fr', '://x'): nothing to keep
    try:
        a = memo_call(normalize_url, u)
        b = normalize_url(u, strip_protocol=False)
    except Exception:
        return True
    return b == pin[0].scheme + "://" + a


def authentication_kept_when_asked(u):
    pin = U.parse(u, "http")
    if pin is None:
        return True
    try:
        b = normalize_url(u, strip_authentication=False, unsplit=False, infer_redirection=False)
        a = normalize_url(u, unsplit=False, infer_redirection=False)
    except Exception:
        return True
    if isinstance(a, str) or isinstance(b, str):
        return True
    try:
        same_user = U.opt_decode(b.username) == U.opt_decode(pin[1]) and U.opt_decode(b.password) == U.opt_decode(pin[2])
    except ValueError:
        return False
    return same_user and b.hostname == a.hostname and b[2:] == a[2:]


def fragment_kept_when_asked(u):
    pin = U.parse(u, "http")
    if pin is None:
        return True
    try:
        b = normalize_url(u, strip_fragment=False, unsplit=False, infer_redirection=False)
        a = normalize_url(u, unsplit=False, infer_redirection=False)
    except Exception:
        return True
    if isinstance(a, str) or isinstance(b, str):
        return True
    if U.opt_decode(b.fragment) != U.opt_decode(pin[0].fragment):
        return False
    # nothing else changes, except that a root path is kept as '/' in front of a fragment
    return b[:2] == a[:2] and b[3] == a[3] and (b[2] == a[2] or (a[2] == "" and b[2] == "/"))


def subdomains_kept_when_asked(u):
    pin = U.parse(u, "http")
    if pin is None or not pin[3]:
        return True
    try:
        b = normalize_url(u, strip_irrelevant_subdomains=False, normalize_amp=False, unsplit=False, infer_redirection=False)
    except Exception:
        return True
    if isinstance(b, str):
        return True
    return b.hostname == pin[3].lower()


def amp_label_kept_after_default_call(u):
    """normalize_amp=False keeps an 'amp' host label, also when the same url was normalized with the defaults before"""
    pin = U.parse(u, "http")
    if pin is None or not pin[3]:
        return True
    labels = pin[3].lower().split(".")
    if "amp" not in labels[:-2]:
        return True
    try:
        normalize_url(u)
        b = normalize_url(u, normalize_amp=False, unsplit=False, infer_redirection=False)
    except Exception:
        return True
    if isinstance(b, str) or not b.hostname:
        return True
    return "amp" in b.hostname.split(".")


_AMP_KEY = re.compile(r"^amp(?:_.+)?$", re.I)


def amp_items_kept_when_asked(u):
    """normalize_amp=False keeps the AMP query items, also after a call with normalize_amp=True"""
    b0 = _parts(u, sort_query=False, fix_common_mistakes=False)
    if b0 is None:
        return True
    b = _parts(u, normalize_amp=False, sort_query=False, fix_common_mistakes=False)
    if b is None:
        return True
    qin = U.query_items(b[0][0].query)
    qout = U.query_items(b[1].query)
    for k, v in qin:
        try:
            key = k.decode("utf-8")
        except UnicodeDecodeError:
            continue
        if _AMP_KEY.match(key) and (k, v) not in qout:
            return False
    return True


_MISTAKE = re.compile(r"&amp(?:%3B|;)", re.I)


def query_items_are_a_subset_with_repair(u):
    """fix_common_mistakes=True: the output items are a subset of the input's items once '&amp;' is read as '&'"""
    b = _parts(u, fix_common_mistakes=True)
    if b is None:
        return True
    qin = U.query_items(_MISTAKE.sub("&", b[0][0].query))
    qout = U.query_items(b[1].query)
    pool = list(qin)
    for it in qout:
        if it not in pool:
            return False
        pool.remove(it)
    return True
