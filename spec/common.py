"""Reference definitions shared by the property specifications.  Plain Python with no
import from ural: run natively as the oracle and symbolically by the interpreter."""

_HEXD = "0123456789abcdefABCDEF"
HEXBYTE = {a + b: bytes([int(a + b, 16)]) for a in _HEXD for b in _HEXD}
HEX_RANGES = [(0x30, 0x39), (0x41, 0x46), (0x61, 0x66)]
CONTROL_RANGES = [(0x00, 0x1F), (0x7F, 0x9F)]
# unreserved characters of RFC 3986 plus '/' (urllib.parse.quote's default safe) and '%'
QUOTED_OUTPUT_RANGES = [(0x25, 0x25), (0x2D, 0x2F), (0x30, 0x39), (0x41, 0x5A), (0x5F, 0x5F),
                        (0x61, 0x7A), (0x7E, 0x7E)]


def pct_decode(s):
    """The bytes a percent-encoded text denotes: every well-formed %XX is one byte, any
    other character stands for its UTF-8 bytes (a '%' not followed by two hex digits is
    a literal '%')."""
    out = []
    i = 0
    n = len(s)
    while i < n:
        if s[i] == "%" and i + 2 < n:
            b = HEXBYTE.get(s[i + 1:i + 3])
            if b is not None:
                out.append(b)
                i += 3
                continue
        out.append(s[i].encode("utf-8"))
        i += 1
    return b"".join(out)
