"""C08 — suffix / domain extraction follows the Public Suffix List algorithm."""
from ural.classes.suffix_trie import SuffixTrie
from ural import tld as T
from ural.tld_data import PUBLIC_SUFFIXES, PRIVATE_SUFFIXES, TLDS

_TLDS = frozenset(TLDS)


def _rule_matches(rule_labels, host_labels):
    """rule (labels, left to right; '*' = exactly one label) matches the right end of the host"""
    if len(rule_labels) > len(host_labels):
        return False
    for i in range(1, len(rule_labels) + 1):
        r = rule_labels[-i]
        if r != "*" and r != host_labels[-i]:
            return False
    return True


def ref_suffix_length(rules, host_labels):
    """number of labels of the public suffix, or 0 when no rule matches (publicsuffix.org algorithm)"""
    best = 0
    for rule in rules:
        if rule.startswith("!"):
            labels = rule[1:].split(".")
            if _rule_matches(labels, host_labels):
                return len(labels) - 1
    for rule in rules:
        if rule.startswith("!"):
            continue
        labels = rule.split(".")
        if _rule_matches(labels, host_labels) and len(labels) > best:
            best = len(labels)
    return best


def trie_follows_psl(rules, host):
    """a SuffixTrie built from `rules` splits `host` as the reference algorithm does"""
    t = SuffixTrie()
    for r in rules:
        t.add(r)
    labels = host.split(".")
    n = ref_suffix_length(rules, labels)
    got = t.split(host)
    if n == 0:
        return got is None and t.extract_suffix(host) is None and t.extract_domain_name(host) is None and not t.has_valid_domain_name(host)
    if got is None:
        return False
    exp_suffix = ".".join(labels[len(labels) - n:])
    if n >= len(labels):
        exp = ("", ".".join(labels))
        exp_domain = ".".join(labels)
    else:
        exp = (".".join(labels[:len(labels) - n]), exp_suffix)
        exp_domain = ".".join(labels[len(labels) - n - 1:])
    if n > len(labels):
        return True           # the host is shorter than an exception rule's parent: left open
    return tuple(got) == exp and t.extract_suffix(host) == exp[1] and t.extract_domain_name(host) == exp_domain and t.has_valid_domain_name(host)


_BUNDLED = None


def _bundled_rules_for(tld):
    global _BUNDLED
    if _BUNDLED is None:
        _BUNDLED = {}
        for r in PUBLIC_SUFFIXES + PRIVATE_SUFFIXES:
            _BUNDLED.setdefault(r.lstrip("!").rsplit(".", 1)[-1], []).append(r)
    return _BUNDLED.get(tld, [])


def bundled_list_follows_psl(host):
    """split_suffix / get_domain_name / has_valid_suffix on the bundled list vs the reference over the same rules"""
    h = host.lower().rstrip(".")
    labels = h.split(".")
    rules = _bundled_rules_for(labels[-1])
    n = ref_suffix_length(rules, labels)
    got = T.split_suffix(host)
    if n == 0 or n > len(labels):
        if n == 0:
            return got is None and not T.has_valid_suffix(host) and T.get_domain_name(host) is None
        return True
    if got is None:
        return False
    if n == len(labels):
        exp = ("", h)
        dom = h
    else:
        exp = (".".join(labels[:len(labels) - n]), ".".join(labels[len(labels) - n:]))
        dom = ".".join(labels[len(labels) - n - 1:])
    return tuple(got) == exp and T.get_domain_name(host) == dom and T.has_valid_suffix(host)


def surface_claims(host, url_pre, url_post):
    """parts re-join to the lower-cased host; case / trailing dot / url wrapping do not matter; TLD validity depends on the last label"""
    h = host
    core_ = h.rstrip(".")
    if core_ == "" or core_.startswith(".") or ".." in core_:
        return True           # empty labels: not a hostname
    got = T.split_suffix(h)
    if got is not None:
        d, s = got
        joined = s if d == "" else d + "." + s
        if joined != h.lower().rstrip("."):
            return False
    if T.split_suffix(h.upper()) != got:
        return False
    if T.split_suffix(url_pre + h + url_post) != got:
        return False
    if T.get_domain_name(url_pre + h + url_post) != T.get_domain_name(h):
        return False
    last = h.rsplit(".", 1)[-1]
    exp = last.lower() in _TLDS
    if last.lower().startswith("xn--"):
        return True
    return T.has_valid_tld(h) == exp and T.is_valid_tld(last) == exp and T.is_valid_tld("." + last.upper()) == exp and T.has_valid_tld("zz." + h) == exp
