"""C16 — is_url options are monotone; urls_from_text yields genuine URLs of the text."""
import re
from urllib.parse import urlsplit
from pysx.lib import implies, and_
from ural.is_url import is_url
from ural.urls_from_text import urls_from_text
from ural.tld_data import TLDS

_TLDS = frozenset(TLDS)
_SPECIAL = re.compile(r"^localhost|(\d{1,3}\.){3}\d{1,3}|[\da-f]*:[\da-f:]*$", re.I)
_PROTO = re.compile(r"^[a-zA-Z]{0,64}:?//")


def _acc(s, o):
    return is_url(s, require_protocol=o[0], tld_aware=o[1], allow_spaces_in_path=o[2], only_http_https=o[3])


def monotone(s, o):
    """o = (require_protocol, tld_aware, allow_spaces_in_path, only_http_https): relaxing any one option
    never turns an accepted string into a rejected one"""
    a = _acc(s, o)
    if not a:
        return True
    if o[0] and not _acc(s, (False, o[1], o[2], o[3])):
        return False
    if o[1] and not _acc(s, (o[0], False, o[2], o[3])):
        return False
    if not o[2] and not _acc(s, (o[0], o[1], True, o[3])):
        return False
    if o[3] and not _acc(s, (o[0], o[1], o[2], False)):
        return False
    return True


def ignores_outer_whitespace(s, w1, w2, o):
    return _acc(w1 + s + w2, o) == _acc(s, o)


def tld_aware_means_known_tld(s, o):
    if not _acc(s, (o[0], True, o[2], o[3])):
        return True
    t = s.strip()
    try:
        host = urlsplit(t if _PROTO.match(t) else "http://" + t).hostname
    except ValueError:
        return False
    if not host:
        return False
    if _SPECIAL.match(host):
        return True
    last = host.rsplit(".", 1)[-1].lower()
    if last.startswith("xn--"):
        return True           # punycode TLD: idna decoding is outside the claim
    return last in _TLDS


def extracted_urls_are_genuine(text):
    try:
        found = list(urls_from_text(text))
    except Exception:
        return False
    pos = 0
    for u in found:
        if u == "" or u != u.strip():
            return False
        i = text.find(u, pos)
        if i < 0:
            if text.find(u) < 0:
                return False
            # the two halves of a markdown link come out of one match: order inside it is free
            i = text.find(u)
        pos = max(pos, i)
        if not is_url(u, require_protocol=True, only_http_https=False):
            return False
    return True
