"""C04 — normalize_url ignores every variation it documents as irrelevant (relational)."""
from pysx.lib import memo_call
from ural.normalize_url import normalize_url
from ural.infer_redirection import infer_redirection
from spec import url as U


def _n(u, quoted, platform_aware):
    return normalize_url(u, quoted=quoted, platform_aware=platform_aware)


def same_normalized(u, v, quoted, platform_aware):
    """u and v differ only in something documented as irrelevant"""
    try:
        a = memo_call(_n, u, quoted, platform_aware)
    except Exception:
        return True       # never-raises is C05's obligation
    try:
        b = _n(v, quoted, platform_aware)
    except Exception:
        return True
    return a == b


def redirection_is_a_pre_step(u, quoted):
    try:
        a = memo_call(_n, u, quoted, False)
    except Exception:
        return True
    try:
        t = infer_redirection(u)
        b = normalize_url(t, quoted=quoted, infer_redirection=False)
    except Exception:
        return True
    if t != u and U.parse(t, "http") is None:
        return True           # the inferred target is not a parseable url: which of the two unparseable-url rules applies is not settled by the property
    return a == b


# ---- signatures of known findings ------------------------------------------
import re

_EMPTY_HINT = re.compile(r"(?:^|[?&])(?:redirect(?:_to)?|target|redir|next|link|orig|goto|url|[luq])=$", re.I)


def sig_slash_after_empty_redirect_value(u, v, quoted, platform_aware):
    """u ends with a redirection key and '=' (empty value): the slash appended to it is read as a relative target"""
    return _EMPTY_HINT.search(u) is not None and v == u + "/"
