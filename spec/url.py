"""Reference denotation of a URL string: what resource it names.  Independent of ural;
uses only the standard parser (the properties speak of 're-parsing the result')."""
import re
from urllib.parse import urlsplit
from spec.common import pct_decode

_CTRL = re.compile("[\x00-\x1f\x7f-\x9f]")
_PROTO = re.compile(r"^[a-zA-Z]{0,64}:?//")
_BRACKETED = re.compile(r"^(?:[^\[\]]*@)?\[[^\[\]]*\](?::[0-9]*)?$")
DEFAULT_PORTS = {"http": 80, "https": 443}


def clean(u, default_protocol):
    u = _CTRL.sub("", u)
    u = u.strip()
    p = default_protocol.rstrip(":/")
    if not _PROTO.match(u):
        u = p + "://" + u
    elif u.startswith("//"):
        u = p + ":" + u
    return u


def parse(u, default_protocol="https", cleaning=True):
    """SplitResult + (username, password, hostname, port), or None when the string does not parse.
    cleaning=False: the string is a result, taken literally (only a missing scheme is supplied)."""
    if cleaning:
        u = clean(u, default_protocol)
    try:
        parts = urlsplit(u)
        if cleaning and ("[" in parts.netloc or "]" in parts.netloc) and not _BRACKETED.match(parts.netloc):
            return None       # stray brackets outside one well-formed [literal]: not a url
        return parts, parts.username, parts.password, parts.hostname, parts.port
    except ValueError:
        return None


def _is_dot(seg):
    s = seg.replace("%2E", ".").replace("%2e", ".")
    if s == ".":
        return 1
    if s == "..":
        return 2
    return 0


def path_segments(path):
    """(list of decoded segments after '.', '..' and empty-segment resolution, ends-with-slash)"""
    out = []
    trailing = False
    for seg in path.split("/"):
        d = _is_dot(seg)
        if d == 2:
            if out:
                out.pop()
            trailing = True
        elif d == 1:
            trailing = True
        elif seg == "":
            trailing = True
        else:
            out.append(pct_decode(seg))
            trailing = False
    if not out:
        trailing = True        # '' and '/' name the same (root) resource
    return out, trailing


def query_items(query):
    if query == "":
        return []
    out = []
    for item in query.split("&"):
        if "=" in item:
            k, v = item.split("=", 1)
            out.append((pct_decode(k), pct_decode(v)))
        else:
            out.append((pct_decode(item), None))
    return out


def effective_port(scheme, port):
    if port is None:
        return DEFAULT_PORTS.get(scheme)
    return port


def opt_decode(x):
    """'' and absent are the same userinfo / fragment"""
    if x is None or x == "":
        return None
    return pct_decode(x)
