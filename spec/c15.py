"""C15 — infer_redirection terminates and returns the input or an embedded target."""
import re
from urllib.parse import unquote, urljoin
from pysx.lib import memo_call, bounded_call, StepLimit
from ural.infer_redirection import infer_redirection

_CTRL = re.compile("[\x00-\x1f\x7f-\x9f]")
_KEYS = re.compile(r"(?:^|[?&])(redirect(?:_to)?|target|redir|next|link|orig|goto|url|[luq])=([^&]+)", re.I)
_UNRESERVED_ESCAPE = re.compile(r"%(?:4[1-9a-f]|5[0-9a]|6[1-9a-f]|7[0-9a]|3[0-9]|2[de]|5f|7e)", re.I)


def _unescape(m):
    return chr(int(m.group(0)[1:], 16))


_HAS_PROTOCOL = re.compile(r"^[a-zA-Z]{0,64}:?//")
_CACHES = re.compile(r"(?:\.ampproject\.org/[cv]/(?:s/)?|bc\.marfeelcache\.com/amp/|bc\.marfeel\.com/)", re.I)


def _rec(u):
    return bounded_call(infer_redirection, u)


def terminates(u):
    try:
        r = memo_call(_rec, u)
    except (RecursionError, StepLimit):
        return False
    return isinstance(r, str)


def result_is_a_fixed_point(u):
    try:
        r = memo_call(_rec, u)
    except (RecursionError, StepLimit):
        return True           # reported by terminates
    return infer_redirection(r) == r


def recursive_equals_iterated_step(u):
    try:
        r = memo_call(_rec, u)
    except (RecursionError, StepLimit):
        return True
    cur = u
    for _ in range(12):
        nxt = infer_redirection(cur, recursive=False)
        if nxt == cur:
            return cur == r
        cur = nxt
    return True               # longer chains than 12 steps are outside this obligation


def _resolve(base, val):
    """a relative target resolved against the url; the host of an url written without protocol is still its host"""
    if _HAS_PROTOCOL.match(base) or base.startswith("/"):
        return urljoin(base, val)
    r = urljoin("//" + base, val)
    return r[2:] if r.startswith("//") else r


def step_returns_input_or_embedded_target(u):
    t = infer_redirection(u, recursive=False)
    if t == u:
        return True
    cleaned = _CTRL.sub("", u).strip()
    # a hint may be spelled with escapes of unreserved characters ('%75rl=' is 'url=')
    cleaned = _UNRESERVED_ESCAPE.sub(_unescape, cleaned)
    # AMP / Marfeel cache: https:// + what follows the cache prefix
    parts = _CACHES.split(cleaned, 1)
    if len(parts) > 1:
        return parts[1] != "" and t == "https://" + parts[1]
    # first redirect-like parameter: its decoded value, joined to the url when relative
    m = _KEYS.search(cleaned)
    if m is None:
        return False
    val = unquote(m.group(2))
    return t == val or t == _resolve(cleaned, val) or t == "https://" + val
