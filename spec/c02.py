"""C02 — canonicalize_url yields one canonical spelling and is idempotent (relational, no oracle)."""
from pysx.lib import memo_call
from ural.canonicalize_url import canonicalize_url
from spec import url as U


def canon(u, quoted, strip_fragment):
    return canonicalize_url(u, quoted=quoted, strip_fragment=strip_fragment)


def _c(u, quoted, strip_fragment):
    """canonical form, or None when the input does not parse or is outside the grammar the property quantifies over"""
    p = U.parse(u, "https")
    if p is None:
        return None           # the standard parser rejects it, or stray brackets outside one [literal]
    if p[0].netloc == "" and p[0].path != "" and not p[0].path.startswith("/"):
        return None           # no authority and a rootless path ('http//x.fr': ural reads a protocol where there is no ':')
    try:
        return memo_call(canon, u, quoted, strip_fragment)
    except ValueError:
        return None


def idempotent(u, quoted, strip_fragment):
    r = _c(u, quoted, strip_fragment)
    if r is None:
        return True
    return canon(r, quoted, strip_fragment) == r


def mode_round_trip(u, quoted, strip_fragment):
    """applying mode `quoted` to the other mode's output gives what mode `quoted` returns for the input"""
    other = _c(u, not quoted, strip_fragment)
    mine = _c(u, quoted, strip_fragment)
    if other is None or mine is None:
        return True
    return canon(other, quoted, strip_fragment) == mine


def same_canonical(u, v, quoted, strip_fragment):
    """u and v are two spellings of one URL"""
    a = _c(u, quoted, strip_fragment)
    if a is None:
        return True
    try:
        b = canon(v, quoted, strip_fragment)
    except ValueError:
        return False
    return a == b


# ---- signatures of known findings ------------------------------------------


def sig_whitespace_in_host(u, quoted, strip_fragment):
    """the parsed host contains a whitespace character ('http://x.fr :', 'http://a b/')"""
    p = U.parse(u, "https")
    if p is None or p[3] is None:
        return False
    for c in p[3]:
        if c.isspace():
            return True
    return False


def sig_raw_delimiter_inside_component(u, quoted, strip_fragment):
    """a userinfo item holds a raw '@' or ':' ('http://a@b@x.fr', 'http://u:p:w@x.fr') or a query
    value a raw '=' ('?k=a=b'): the unquoted mode leaves it raw, the quoted mode escapes it"""
    try:
        parts = U.urlsplit(U.clean(u, "https"))
        user, pw = parts.username, parts.password
    except ValueError:
        return False
    if user is not None and ("@" in user or ":" in user):
        return True
    if pw is not None and ("@" in pw or ":" in pw):
        return True
    for item in parts.query.split("&"):
        if "=" in item and "=" in item.split("=", 1)[1]:
            return True
    return False
