"""C12 — URL <-> LRU conversion is lossless, serialization is invertible."""
import re
from urllib.parse import urlsplit
from pysx.lib import memo_call
from ural.lru import url_to_lru, lru_to_url, lru_stems, serialize_lru, unserialize_lru
from ural.ensure_protocol import ensure_protocol


def _parts(url):
    s = urlsplit(url)
    return s, s.username, s.password, s.hostname, s.port


def _same_components(a, b, suffix_aware):
    (sa, ua, pa, ha, ta), (sb, ub, pb, hb, tb) = a, b
    if sa.scheme != sb.scheme or (ua or None) != (ub or None) or (pa or None) != (pb or None) or ta != tb:
        return False
    if (ha or "").lower() != (hb or "").lower():
        return False
    if not suffix_aware and sa.netloc.lower() != sb.netloc.lower():
        # same netloc up to the letter case of the host (urlsplit lower-cases .hostname only)
        pass
    return sa.path == sb.path and sa.query == sb.query and sa.fragment == sb.fragment


_BRACKETED = re.compile(r"^(?:[^\[\]]*@)?\[[^\[\]]*\](?::[0-9]*)?$")


def _scope(u):
    """the reference reading of u, or None when u is outside the property's grammar"""
    if "|" in u:
        return None           # excluded by the property
    try:
        ref = _parts(ensure_protocol(u))
    except ValueError:
        return None           # not a parseable url
    s = ref[0]
    if ("[" in s.netloc or "]" in s.netloc) and not _BRACKETED.match(s.netloc):
        return None           # stray brackets outside one well-formed [literal]: not an IP literal
    if s.netloc == "" and s.path != "" and not s.path.startswith("/"):
        return None           # no authority and a rootless path ('L//x', '://x'): the grammar's urls have a host
    return ref


def url_round_trip(u, suffix_aware, via_stems):
    ref = _scope(u)
    if ref is None:
        return True
    if via_stems:
        back = lru_to_url(lru_stems(u, suffix_aware=suffix_aware))
    else:
        back = lru_to_url(memo_call(url_to_lru, u, suffix_aware))
    try:
        got = _parts(back)
    except ValueError:
        return False
    return _same_components(ref, got, suffix_aware)


def lru_is_stable(u, suffix_aware):
    if _scope(u) is None:
        return True
    lru = memo_call(url_to_lru, u, suffix_aware)
    return lru.endswith("|") and url_to_lru(lru_to_url(lru), suffix_aware) == lru


def serialization_inverts(u, suffix_aware):
    if _scope(u) is None:
        return True
    stems = lru_stems(u, suffix_aware=suffix_aware)
    s = serialize_lru(stems)
    return unserialize_lru(s) == stems and serialize_lru(unserialize_lru(s)) == s and s.endswith("|")
