"""C13 — LRUs are hierarchical: a page's ancestors are exactly its LRU prefixes."""
from urllib.parse import urlsplit
from ural.lru import lru_stems, url_to_lru
from ural.ensure_protocol import ensure_protocol


def _clean(stems):
    return [s for s in stems if s != "p:"]


def _is_prefix(a, b):
    return len(a) <= len(b) and b[:len(a)] == a


def descendant_has_prefix(u, v, suffix_aware):
    """v was built as a descendant of u: stems and serialized LRU of u are prefixes of v's"""
    try:
        su = _clean(lru_stems(u, suffix_aware=suffix_aware))
        sv = _clean(lru_stems(v, suffix_aware=suffix_aware))
    except ValueError:
        return True
    if not _is_prefix(su, sv):
        return False
    lu, lv = url_to_lru(u, suffix_aware=suffix_aware), url_to_lru(v, suffix_aware=suffix_aware)
    # string prefix of the serialized form, trailing empty path stem aside
    while lu.endswith("|p:|"):
        lu = lu[:-3]
    return lv.startswith(lu)


def _segments(path):
    return [s for s in path.split("/") if s != ""]


def lies_under(u, v):
    """reference: v is at or below u in the web hierarchy"""
    pu, pv = urlsplit(ensure_protocol(u)), urlsplit(ensure_protocol(v))
    if pu.scheme != pv.scheme or pu.port != pv.port:
        return False
    if pu.username or pu.password:
        return True           # out of the converse's scope
    hu, hv = (pu.hostname or ""), (pv.hostname or "")
    su, sv = _segments(pu.path), _segments(pv.path)
    if pu.query != "":
        return hu.lower() == hv.lower() and su == sv and pu.query == pv.query and (pu.fragment == "" or pu.fragment == pv.fragment)
    if pu.fragment != "":
        return hu.lower() == hv.lower() and su == sv and pv.query == "" and pu.fragment == pv.fragment
    if su:
        return hu.lower() == hv.lower() and sv[:len(su)] == su
    return hv.lower() == hu.lower() or hv.lower().endswith("." + hu.lower()) or hu == ""


def prefix_implies_descendant(u, v, suffix_aware):
    """converse: no false ancestors"""
    try:
        su = _clean(lru_stems(u, suffix_aware=suffix_aware))
        sv = _clean(lru_stems(v, suffix_aware=suffix_aware))
        ok = lies_under(u, v)
    except ValueError:
        return True
    if not _is_prefix(su, sv):
        return True
    return ok


# ---- signatures of known findings ------------------------------------------
from ural.tld import split_suffix


def sig_ancestor_inside_public_suffix(u, v, suffix_aware):
    """suffix-aware stems keep a multi-label public suffix in one stem: an ancestor whose host is only a part of
    the descendant's public suffix ('uk' above 'x.co.uk') is not a stem prefix"""
    if not suffix_aware:
        return False
    hu = urlsplit(ensure_protocol(u)).hostname or ""
    hv = urlsplit(ensure_protocol(v)).hostname or ""
    r = split_suffix(hv)
    if r is None:
        return False
    suffix = r[1]
    return suffix != hu and suffix.endswith("." + hu)
