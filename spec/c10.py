"""C10 — TrieDict is observationally a dict keyed by token sequences."""
from ural.classes import TrieDict

ABSENT = "<absent>"


def _ref_lmp(ref_items, q):
    """value under the longest stored key that is a prefix of q (reference, quadratic)"""
    best = None
    best_len = -1
    q = tuple(q)
    for k, v in ref_items:
        if len(k) <= len(q) and len(k) > best_len and q[:len(k)] == k:
            best = v
            best_len = len(k)
    return best


def triedict_matches_dict(keys, values, query):
    t = TrieDict()
    ref = {}
    for k, v in zip(keys, values):
        t[k] = v
        ref[tuple(k)] = v
    q = tuple(query)
    ref_items = list(ref.items())
    if len(t) != len(ref_items):
        return False
    # point lookups
    if t.get(query, ABSENT) != ref.get(q, ABSENT):
        return False
    if q in ref:
        if t[query] != ref[q]:
            return False
        if t.get(query) != ref[q]:
            return False
    else:
        try:
            t[query]
            return False
        except KeyError:
            pass
        if t.get(query) is not None:
            return False
    # traversals: same keys (each once) with the same values
    items = list(t.items())
    if len(items) != len(ref_items):
        return False
    for i in range(len(items)):
        for j in range(i + 1, len(items)):
            if items[i][0] == items[j][0]:
                return False
    for p, v in items:
        if ref.get(tuple(p), ABSENT) != v:
            return False
    if [p for p, _ in items] != list(t.prefixes()) or [v for _, v in items] != list(t.values()):
        return False
    if list(iter(t)) != items:
        return False
    # longest matching prefix
    return t.longest_matching_prefix_value(query) == _ref_lmp(ref_items, query)
