"""C03 — canonicalize < normalize < fingerprint: stronger schemes never split what a weaker one merges."""
from pysx.lib import memo_call
from ural.canonicalize_url import canonicalize_url
from ural.normalize_url import normalize_url
from ural.fingerprint_url import fingerprint_url


def _canon(u):
    return canonicalize_url(u)


def _norm(u, quoted, platform_aware):
    return normalize_url(u, quoted=quoted, platform_aware=platform_aware)


def _norm_keep_scheme(u):
    return normalize_url(u, strip_protocol=False)


def _fp(u, strip_suffix, platform_aware):
    return fingerprint_url(u, strip_suffix=strip_suffix, platform_aware=platform_aware)


def _try(f, *a):
    try:
        return memo_call(f, *a)
    except ValueError:
        return None
    except AttributeError:
        return None
    except TypeError:
        return None
    except IndexError:
        return None
    except KeyError:
        return None


def normalize_after_canonicalize(u, quoted, platform_aware):
    """normalize_url(canonicalize_url(u)) == normalize_url(u)"""
    c = _try(_canon, u)
    n = _try(_norm, u, quoted, platform_aware)
    if c is None or n is None:
        return True            # unparseable input / crash: C05's business
    return _norm(c, quoted, platform_aware) == n


def fingerprint_after_canonicalize(u, strip_suffix, platform_aware):
    c = _try(_canon, u)
    f = _try(_fp, u, strip_suffix, platform_aware)
    if c is None or f is None:
        return True
    return _fp(c, strip_suffix, platform_aware) == f


def fingerprint_after_normalize(u, strip_suffix, platform_aware):
    """same normalized form => same fingerprint, checked as fp(normalize(u) keeping the scheme) == fp(u)"""
    n = _try(_norm_keep_scheme, u)
    f = _try(_fp, u, strip_suffix, platform_aware)
    if n is None or f is None:
        return True
    return _fp(n, strip_suffix, platform_aware) == f


# ---- signatures of known findings ------------------------------------------
from spec import url as U


def sig_whitespace_in_host(u, flag, platform_aware):
    """the netloc of the cleaned url contains a whitespace character"""
    p = U.parse(u, "http")
    if p is None:
        return False
    for c in p[0].netloc:
        if c.isspace():
            return True
    return False
