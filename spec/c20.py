"""C20 — protocol helpers and URL builders compose predictably."""
from pysx.lib import and_, or_, not_, implies, eq, memo_call
from spec.common import pct_decode
from ural.ensure_protocol import ensure_protocol
from ural.force_protocol import force_protocol
from ural.strip_protocol import strip_protocol
from ural.format_url import format_url, URLFormatter
from ural.utils import add_query_argument, get_query_argument, pathsplit, urlpathsplit


# ---- protocol helpers ------------------------------------------------------
def ensure_idempotent(u, p):
    r = memo_call(ensure_protocol, u, p)
    return ensure_protocol(r, p) == r


def force_idempotent(u, p):
    r = memo_call(force_protocol, u, p)
    return force_protocol(r, p) == r


def force_starts_with_protocol(u, p):
    return memo_call(force_protocol, u, p).startswith(p.rstrip(":/") + "://")


def ensure_keeps_rest(u, p):
    return strip_protocol(memo_call(ensure_protocol, u, p)) == memo_call(strip_protocol, u)


def force_keeps_rest(u, p):
    return strip_protocol(memo_call(force_protocol, u, p)) == memo_call(strip_protocol, u)


def force_is_ensure_of_stripped(u, p):
    return memo_call(force_protocol, u, p) == ensure_protocol(memo_call(strip_protocol, u), p)


# ---- builders --------------------------------------------------------------
def split_built(out):
    """(before '?', query or None, fragment or None) of a URL built by format_url"""
    frag = None
    if "#" in out:
        out, frag = out.split("#", 1)
    query = None
    if "?" in out:
        out, query = out.split("?", 1)
    return out, query, frag


def read_query(query):
    """reference reader: items split on '&', key/value on the first '=', percent-decoded"""
    items = []
    for item in query.split("&"):
        if "=" in item:
            k, v = item.split("=", 1)
            items.append((pct_decode(k), pct_decode(v)))
        else:
            items.append((pct_decode(item), None))
    return items


def expected_items(args):
    seq = sorted(args.items()) if isinstance(args, dict) else list(args)
    out = []
    for k, v in seq:
        if v is None or v is False:
            continue
        if v is True:
            out.append((k.encode("utf-8"), None))
        else:
            out.append((k.encode("utf-8"), str(v).encode("utf-8")))
    return out


def format_no_question_mark_when_nothing_retained(base, path, args, fragment):
    out = format_url(base, path=path, args=args, fragment=fragment)
    if len(expected_items(args)) == 0:
        _, query, _ = split_built(out)
        return query is None
    return True


def format_query_reads_back(base, path, args, fragment):
    out = format_url(base, path=path, args=args, fragment=fragment)
    exp = expected_items(args)
    _, query, _ = split_built(out)
    if len(exp) == 0:
        return True            # covered by the obligation above
    if query is None:
        return False
    return read_query(query) == exp


def format_fragment_kept(base, path, args, fragment):
    out = format_url(base, path=path, args=args, fragment=fragment)
    _, _, frag = split_built(out)
    if fragment is None:
        return frag is None
    return frag == fragment.lstrip("#")


def format_path_joined_once(base, path, args, fragment):
    out = format_url(base, path=path, args=args, fragment=fragment)
    head, _, _ = split_built(out)
    if path is None:
        return head == base
    if isinstance(path, str):
        p = path
    else:
        p = "/".join(str(x) for x in path)
    b = base
    while b.endswith("/"):
        b = b[:-1]
    while p.startswith("/"):
        p = p[1:]
    return head == b + "/" + p


def formatter_same_as_function(base, path, args, fragment):
    f = URLFormatter(base_url=base)
    return f.format(path=path, args=args, fragment=fragment) == format_url(base, path=path, args=args, fragment=fragment)


def add_then_get_reads_back(url, name, value):
    out = add_query_argument(url, name, value)
    got = get_query_argument(out, name)
    if value is None or value is True:
        return got is True
    # the value may be handed back in its percent-encoded spelling
    if got is None or got is True:
        return False
    return pct_decode(got) == str(value).encode("utf-8")


def add_keeps_rest(url, name, value):
    out = add_query_argument(url, name, value)
    h0, q0, f0 = split_built(url)
    h1, q1, f1 = split_built(out)
    if f0 != f1 or h0 != h1 or q1 is None:
        return False
    old = [] if not q0 else q0.split("&")
    new = q1.split("&")
    return len(new) == len(old) + 1 and new[:len(old)] == old


def pathsplit_spec(p):
    r = pathsplit(p)
    s = p.strip().strip("/")
    if s == "":
        return r == [] or r == [""]
    return r == s.split("/")


# ---- signatures of known findings ------------------------------------------
import re
_PROTO_LIKE = re.compile(r"^[a-zA-Z]*:?//")


def sig_nested_protocol(u, p):
    """what is left after stripping one protocol again starts like a protocol
    ('http://https://x', '////', 'a////')"""
    return _PROTO_LIKE.match(strip_protocol(u)) is not None
