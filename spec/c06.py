"""C06 — fingerprint_url ignores case, port, language subdomain, gl/hl and (optionally) the suffix."""
from pysx.lib import memo_call
from urllib.parse import urlsplit
from ural.fingerprint_url import fingerprint_url


def _f(u, strip_suffix):
    return fingerprint_url(u, strip_suffix=strip_suffix)


def same_fingerprint(u, v, strip_suffix):
    try:
        a = memo_call(_f, u, strip_suffix)
    except Exception:
        return True           # crashes are reported by no_scheme_userinfo_port
    try:
        b = _f(v, strip_suffix)
    except Exception:
        return False
    return a == b


def no_scheme_userinfo_port(u, strip_suffix):
    try:
        r = fingerprint_url(u, strip_suffix=strip_suffix, unsplit=False)
        s = memo_call(_f, u, strip_suffix)
    except ValueError:
        return True           # unparseable input
    if isinstance(r, str):
        return True           # unparseable input handed back unchanged
    if r.scheme != "" or r.username is not None or r.password is not None:
        return False
    try:
        if r.port is not None:
            return False
    except ValueError:
        return False
    # the string form re-parses (as a scheme-less url) to the same parts
    if r.netloc != "":
        back = urlsplit("//" + s)
        return back.netloc == r.netloc and "@" not in back.netloc
    return True


def same_fingerprint_after_other_calls(u, v):
    """the answer for strip_suffix=True does not depend on earlier calls with other options"""
    try:
        fingerprint_url(u, strip_suffix=False)
        fingerprint_url(v, strip_suffix=False)
        a = fingerprint_url(u, strip_suffix=True)
    except Exception:
        return True
    try:
        b = fingerprint_url(v, strip_suffix=True)
    except Exception:
        return False
    return a == b
