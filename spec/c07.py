"""C07 — hostname / LRU-stem helpers agree with the URL-level functions (differential)."""
from urllib.parse import urlsplit
from spec import url as U
from ural.normalize_url import normalize_url, normalize_hostname, get_normalized_hostname
from ural.fingerprint_url import fingerprint_url, fingerprint_hostname, get_fingerprinted_hostname
from ural.canonicalize_url import canonicalize_url
from ural.get_hostname import get_hostname
from ural.lru import lru_stems, canonicalized_lru_stems, normalized_lru_stems, fingerprinted_lru_stems


SKIP = "<skip>"


def _host_of(r):
    if isinstance(r, str):
        return SKIP          # unparseable input handed back unchanged: not a URL
    return r.hostname or None


def _same_host(helper, full):
    ref = _host_of(full)
    if ref == SKIP:
        return True
    return (helper or None) == ref      # '' and None both mean "no host"


def normalized_hostname_of_url(u, normalize_amp, infer):
    try:
        full = normalize_url(u, unsplit=False, normalize_amp=normalize_amp, infer_redirection=infer)
    except Exception:
        return True           # C05
    return _same_host(get_normalized_hostname(u, normalize_amp=normalize_amp, infer_redirection=infer), full)


def normalized_hostname_of_host(h, normalize_amp):
    b = _bare(h)
    if b is None:
        return True           # h is not a bare hostname (whitespace, delimiter, port, userinfo ... inside)
    try:
        full = normalize_url("http://" + b + "/", unsplit=False, normalize_amp=normalize_amp, infer_redirection=False)
    except Exception:
        return True
    if isinstance(full, str):
        return True
    return (normalize_hostname(h, normalize_amp=normalize_amp) or None) == (full.hostname or None)


def fingerprinted_hostname_of_url(u, strip_suffix, infer):
    try:
        full = fingerprint_url(u, unsplit=False, strip_suffix=strip_suffix)
    except Exception:
        return True
    if not infer:
        return True
    return _same_host(get_fingerprinted_hostname(u, infer_redirection=True, strip_suffix=strip_suffix), full)


def fingerprinted_hostname_of_host(h, strip_suffix):
    b = _bare(h)
    if b is None:
        return True
    try:
        full = fingerprint_url("http://" + b + "/", unsplit=False, strip_suffix=strip_suffix)
    except Exception:
        return True
    if isinstance(full, str):
        return True
    return (fingerprint_hostname(h, strip_suffix=strip_suffix) or None) == (full.hostname or None)


def _bare(h):
    """h stripped of surrounding whitespace when that is a bare hostname, else None"""
    b = h.strip()
    for c in b:
        if c.isspace() or c in "/?#@:[]\\" or ord(c) < 32 or 127 <= ord(c) <= 159:
            return None
    if b == "":
        return None
    try:
        if urlsplit("http://" + b + "/").hostname != b.lower():
            return None
    except ValueError:
        return None
    return b


def sig_whitespace_in_host(u, a, b):
    p = U.parse(u, "http")
    if p is None:
        return False
    for c in p[0].netloc:
        if c.isspace():
            return True
    return False


def _has_host(u):
    p = U.parse(u, "http")
    return p is not None and bool(p[3])


def _drop_scheme(stems):
    return [s for s in stems if not s.startswith("s:")]


def canonicalized_stems(u, suffix_aware):
    try:
        c = canonicalize_url(u)
    except Exception:
        return True
    return canonicalized_lru_stems(u, suffix_aware=suffix_aware) == lru_stems(c, suffix_aware=suffix_aware)


def normalized_stems(u, suffix_aware):
    try:
        n = normalize_url(u)
        ref = lru_stems(n, suffix_aware=suffix_aware)
    except Exception:
        return True
    if n == u or not _has_host(u):
        return True           # unparseable input handed back / no host: not a URL
    return normalized_lru_stems(u, suffix_aware=suffix_aware) == _drop_scheme(ref)


def fingerprinted_stems(u, suffix_aware):
    try:
        f = fingerprint_url(u)
        ref = lru_stems(f, suffix_aware=suffix_aware)
    except Exception:
        return True
    if f == u.lower() or not _has_host(u):
        return True
    return fingerprinted_lru_stems(u, suffix_aware=suffix_aware) == _drop_scheme(ref)


def hostname_of_url(u):
    p = U._PROTO.match(u)
    try:
        ref = urlsplit(u if p else "http://" + u).hostname or None
    except ValueError:
        ref = None
    return get_hostname(u) == ref


def fingerprinted_stems_without_suffix(u):
    """fingerprinted_lru_stems(strip_suffix=True, suffix_aware=True) == stems of the suffix-less fingerprint"""
    try:
        f = fingerprint_url(u, strip_suffix=True)
        ref = lru_stems(f, suffix_aware=True)
    except Exception:
        return True
    if f == u.lower() or not _has_host(u):
        return True
    return fingerprinted_lru_stems(u, suffix_aware=True, strip_suffix=True) == _drop_scheme(ref)
