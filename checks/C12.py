"""C12: lossless URL <-> LRU conversion on URL skeletons with symbolic holes."""
from pysx.api import sym_str, cat
from pysx.harness import run_prop
from pysx.values import elems, z_and, z_not, ceq
from spec import c12 as S

SKELETONS = [
    ("path", "http://x.fr/a/", "/b?k=v#f"),
    ("path-tail", "https://www.x.co.uk/a/", ""),
    ("empty-segments", "http://x.fr//a//", "/"),
    ("userinfo", "http://u", ":p@x.fr/"),
    ("password-only", "http://:", "@x.fr/a"),
    ("host", "http://a.", ".x.fr:8080/p"),
    ("ipv4", "http://192.168.0.", ":80/p"),
    ("ipv6", "http://[::1]:", "/p"),
    ("ipv6-hex", "http://[2001:db8::1]:8", "/p"),
    ("ipv6-v4", "http://u@[::1.2.3.4]", "/p?q"),
    ("localhost", "http://localhost", "/p?q"),
    ("port", "http://x.fr:", "/a"),
    ("query", "http://x.fr/a?", "#"),
    ("fragment", "http://x.fr/a?#", ""),
    ("colon-at", "http://x.fr/a:b@c/", "?k=a:b@c"),
    ("no-scheme", "", "x.fr/a"),
    ("after-host", "http://x.fr", ""),
    ("whole", "", ""),
]
BOUNDS = {
    "quick": "18 URL skeletons (userinfo with / without password, IPv4, bracketed IPv6 with port, localhost, ports, empty path segments, trailing slash, empty and non-empty query / fragment, ':' and '@' in path and query) x every hole string without '|' of length 0..2 over all code points x suffix_aware in {F,T}",
    "thorough": "holes of length 0..3 (4 for the path / query holes)",
}
STUBS = ["see C01; live SUFFIX_TRIE walked symbolically when suffix_aware (dict lookups with symbolic keys fork over the entries of matching length)"]
TRUSTED = ["pysx engine", "z3", "stdlib urlsplit as the judge of 'same components' (the property speaks of re-parsing)"]
ASSUMPTIONS = ["no '|' in the url (as the property states)", "urls the standard parser rejects are skipped", "urls without authority and with a rootless path ('L//x', '://x') and netlocs with stray brackets are outside the grammar the property quantifies over"]


def rt(st, skel, n, suffix_aware):
    name, pre, post = SKELETONS[skel]
    u = cat(pre, sym_str(st, "s", n), post)
    run_prop(st, "url_round_trip", S.url_round_trip, u, suffix_aware, False)
    run_prop(st, "url_round_trip_via_stems", S.url_round_trip, u, suffix_aware, True)
    run_prop(st, "lru_is_stable", S.lru_is_stable, u, suffix_aware)
    run_prop(st, "serialization_inverts", S.serialization_inverts, u, suffix_aware)


def items(tier):
    quick = tier == "quick"
    out = []
    for i, (name, pre, post) in enumerate(SKELETONS):
        nmax = 2 if quick else (4 if name in ("path", "path-tail", "query", "fragment") else 3)
        for n in range(0, nmax + 1):
            for sa in (False, True):
                it = {"fn": "rt", "params": {"skel": i, "n": n, "suffix_aware": sa}, "name": "%s n=%d sa=%s" % (name, n, sa), "weight": 8 ** n}
                if n >= 2:
                    it["defer_depth"] = 8
                out.append(it)
    return out
