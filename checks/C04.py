"""C04: normalize_url(T(u)) == normalize_url(u) for the documented-irrelevant transformations T."""
from pysx.api import sym_str, cat
from pysx.harness import run_prop
from pysx.values import elems, mk, z_and, z_or, z_not, ceq
from pysx import chars as C
from spec import c04 as S
from checks.C02 import _WS_CTRL, UNRESERVED, _escape_of

BOUNDS = {
    "quick": "30 transformation families, each around a symbolic hole of length 0..2 (any code points unless stated), quoted in {F,T}; redirect pre-step on 4 skeletons with holes of length 0..2",
    "thorough": "holes of length 0..3",
}
STUBS = ["see C01"]
TRUSTED = ["pysx engine", "z3 (relational: no oracle)"]
ASSUMPTIONS = ["inputs on which normalize_url raises are skipped here (C05)", "platform_aware=False",
               "holes placed in a path / query position are assumed free of the delimiters that would move them to another component when the transformation appends text after them (stated per family in the code)"]


def _no(he, chars_):
    return z_and([z_not(z_or([ceq(c, ord(x)) for x in chars_])) for c in he])


def _plain(st, he, extra=""):
    """hole without whitespace / control characters (they would be cleaned away differently at the edges)"""
    st.assume(z_and([z_not(_WS_CTRL.cond(c)) for c in he]), "hole without whitespace / control characters")
    if extra:
        st.assume(_no(he, extra), "hole without %r" % extra)


def transform(st, kind, n, quoted):
    h = sym_str(st, "s", n)
    he = elems(h)
    if kind == "scheme-https":
        u, v = cat("http://x.fr/a", h), cat("https://x.fr/a", h)
    elif kind == "scheme-none":
        u, v = cat("http://x.fr/a", h), cat("x.fr/a", h)
    elif kind == "scheme-relative":
        u, v = cat("http://x.fr/a", h), cat("//x.fr/a", h)
    elif kind == "userinfo":
        _plain(st, he, "/?#@\\[]")
        # a netloc holding a character whose NFKC form contains a delimiter is refused by the url parser: not a url
        from pysx.models import _nfkc_delims
        st.assume(z_and([z_not(_nfkc_delims().cond(c)) for c in he]), "userinfo the url parser accepts (NFKC check)")
        u, v = cat("http://x.fr/p?q=1"), cat("http://", h, "@x.fr/p?q=1")
        st.assume(len(he) > 0, "non-empty userinfo")
    elif kind in ("www", "www2", "m", "mobile", "amp-dot", "amp-dash"):
        pre = {"www": "www.", "www2": "www2.", "m": "m.", "mobile": "mobile.", "amp-dot": "amp.", "amp-dash": "amp-"}[kind]
        u, v = cat("http://x.fr/", h), cat("http://", pre, "x.fr/", h)
    elif kind == "sub-stack":
        u, v = cat("http://x.fr/", h), cat("http://www.m.x.fr/", h)
    elif kind == "default-port":
        u, v = cat("http://x.fr/a", h), cat("http://x.fr:80/a", h)
    elif kind == "default-port-https":
        u, v = cat("https://x.fr/a", h), cat("https://x.fr:443/a", h)
    elif kind == "host-case":
        u, v = cat("http://sub.x.fr/A", h), cat("http://SuB.X.fR/A", h)
    elif kind == "scheme-with-port":
        # the scheme is irrelevant whatever port comes with it
        u, v = cat("http://x.fr:443/a", h), cat("https://x.fr:443/a", h)
    elif kind == "scheme-with-port-80":
        u, v = cat("https://x.fr:80/a", h), cat("x.fr:80/a", h)
    elif kind == "trailing-slash-key":
        # a path that happens to hold a redirect-like key, in upper case
        _plain(st, he, "?#")
        u, v = cat("http://x.fr/a/b&Q=", h), cat("http://x.fr/a/b&Q=", h, "/")
    elif kind == "host-case-platform":
        # letter case of a host that the heuristics look for by name (youtube redirect links)
        u, v = cat("http://www.youtube.com/redirect?q=y.fr/", h), cat("http://WWW.YouTube.Com/redirect?q=y.fr/", h)
    elif kind == "trailing-slash":
        _plain(st, he, "?#")
        u, v = cat("http://x.fr/a/b", h), cat("http://x.fr/a/b", h, "/")
    elif kind == "index":
        # trailing index / default page with a symbolic extension (no dot, raw or escaped: that would be another name)
        _plain(st, he, "?#/.%")
        u, v = cat("http://x.fr/a"), cat("http://x.fr/a/index.", h) if n else cat("http://x.fr/a/index")
    elif kind == "default-page":
        _plain(st, he, "?#/.%")
        u, v = cat("http://x.fr/a/?k=v"), cat("http://x.fr/a/default.", h, "?k=v") if n else cat("http://x.fr/a/default?k=v")
    elif kind == "fragment":
        _plain(st, he, "")
        if n:
            st.assume(z_not(z_or([ceq(he[0], 47), ceq(he[0], 33)])), "fragment is not client-side routing")
        u, v = cat("http://x.fr/a?k=v"), cat("http://x.fr/a?k=v#", h)
    elif kind == "utm":
        # a tracking item with symbolic suffix and value, at each position ('?' excluded: '?q=' inside it would be a redirect hint)
        _plain(st, he, "&#=?")
        st.assume(len(he) > 0, "non-empty")
        pos = n % 3
        items = ["a=1", "b=2"]
        items.insert(pos, cat("utm_", h, "=", h))
        u, v = cat("http://x.fr/p?a=1&b=2"), cat("http://x.fr/p?", items[0], "&", items[1], "&", items[2])
    elif kind == "tracking-fixed":
        _plain(st, he, "&#=")
        u = cat("http://x.fr/p?a=", h, "&b=2")
        v = cat("http://x.fr/p?fbclid=", h, "&a=", h, "&ref=fb&b=2&s=12&sessionid=", h, "&gclid")
    elif kind == "permutation":
        _plain(st, he, "&#")
        u = cat("http://x.fr/p?a=", h, "&b=2&c")
        v = cat("http://x.fr/p?c&a=", h, "&b=2")
    elif kind == "permutation-keys":
        _plain(st, he, "&#=")
        st.assume(len(he) > 0, "non-empty")
        u = cat("http://x.fr/p?", h, "=1&k=2&", h, "x=3")
        v = cat("http://x.fr/p?k=2&", h, "x=3&", h, "=1")
    elif kind == "amp-entity":
        _plain(st, he, "&#")
        u = cat("http://x.fr/p?a=1&b=", h, "&c")
        v = cat("http://x.fr/p?a=1&amp;b=", h, "&amp;c")
    elif kind == "escape-unreserved":
        if n != 1:
            st.assume(False, "shape not applicable")
        c = he[0]
        st.assume(UNRESERVED.cond(c), "unreserved character")
        esc = mk("str", _escape_of(c))
        u = cat("http://x.fr/a", h, "b?k", h, "=v", h, "&z=1")
        v = cat("http://x.fr/a", esc, "b?k", esc, "=v", esc, "&z=1")
    elif kind == "outer-whitespace":
        st.assume(z_and([_WS_CTRL.cond(c) for c in he]), "whitespace / control characters")
        u, v = cat("http://x.fr/a?k=v"), cat(h, "http://x.fr/a?k=v", h)
    elif kind == "inner-control":
        st.assume(z_and([C.CharSet([(0, 0x1F), (0x7F, 0x9F)]).cond(c) for c in he]), "control characters")
        u, v = cat("http://www.x.fr/ab?k=v"), cat("http://w", h, "ww.x.fr/a", h, "b?k", h, "=v")
    else:
        raise ValueError(kind)
    run_prop(st, "irrelevant/" + kind, S.same_normalized, u, v, quoted, False)


KINDS = ["scheme-https", "scheme-none", "scheme-relative", "userinfo", "www", "www2", "m", "mobile", "amp-dot", "amp-dash", "sub-stack",
         "default-port", "default-port-https", "host-case", "host-case-platform", "trailing-slash-key", "scheme-with-port", "scheme-with-port-80", "trailing-slash", "index", "default-page", "fragment", "utm", "tracking-fixed",
         "permutation", "permutation-keys", "amp-entity", "escape-unreserved", "outer-whitespace", "inner-control"]

REDIRECTS = [("http://x.fr/r?u=", ""), ("http://x.fr/r?url=http%3A%2F%2Fy.fr%2F", "&k=v"), ("https://l.x.fr/l.php?next=/", "#f"),
             # an escape inside the embedded target, itself escaped in the carrier (double encoding), either letter case
             ("http://x.fr/r?url=http%3A%2F%2Fy.fr%2Fa%25", "b%3Fk%3D1")]


def redirect(st, skel, n, quoted):
    pre, post = REDIRECTS[skel]
    u = cat(pre, sym_str(st, "s", n), post)
    run_prop(st, "redirection_is_a_pre_step", S.redirection_is_a_pre_step, u, quoted)


def items(tier):
    quick = tier == "quick"
    nmax = 2 if quick else 3
    out = []
    for kind in KINDS:
        ns = [1] if kind == "escape-unreserved" else list(range(0, nmax + 1))
        for n in ns:
            for quoted in (False, True):
                if quick and n == 2 and quoted != (len(kind) % 2 == 0):
                    continue
                it = {"fn": "transform", "params": {"kind": kind, "n": n, "quoted": quoted}, "name": "%s n=%d quoted=%s" % (kind, n, quoted), "weight": 8 ** n}
                if n >= 2:
                    it["defer_depth"] = 8
                out.append(it)
    for skel in range(len(REDIRECTS)):
        for n in range(0, nmax + 1):
            it = {"fn": "redirect", "params": {"skel": skel, "n": n, "quoted": bool(n % 2)}, "name": "redirect %d n=%d" % (skel, n), "weight": 8 ** n}
            if n >= 2:
                it["defer_depth"] = 8
            out.append(it)
    return out
