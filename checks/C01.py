"""C01: canonicalize_url on URL skeletons with symbolic holes in every component."""
from pysx.api import sym_str, sym_tokens, cat
from pysx.harness import run_prop
from spec import c01 as S

# (name, prefix, suffix): the hole (any string of <= k code points) sits between them
SKELETONS = [
    ("path-tail", "http://x.fr/a/", ""),
    ("path-mid", "https://x.fr/a/", "/b?k=v#f"),
    ("path-root", "http://x.fr/", "?q=1"),
    ("userinfo", "http://u", ":p@x.fr/a"),
    ("password", "http://u:", "@x.fr/a?k=v"),
    ("host-tail", "http://u:p@WWW.x", ".fr:8080/a"),
    ("port", "https://x.fr:", "/a/b/"),
    ("query-key", "http://x.fr/a?", "=v&k2=v2#f"),
    ("query-value", "HTTP://X.fr/a?k=", "&k2"),
    ("fragment", "http://x.fr/a?k=v#", ""),
    ("scheme", "", "x.fr/a/?k=v#f"),
    ("scheme-sep", "http", "x.fr/a b/%7e?k=%41"),
    ("after-host", "http://x.fr", ""),
    ("whole", "", ""),
    ("path-escape", "http://x.fr/a/%", "/b"),
    ("query-escape", "http://x.fr/a?k=%", "&l"),
    ("userinfo-escape", "http://u%", "@x.fr/"),
    ("fragment-escape", "http://x.fr/#%", ""),
    ("path-escape-tail", "http://x.fr/docs/%", ""),
    ("idn-host", "http://www.xn--tlrama-bvab.fr/a", "?q"),
    ("idn-refused-host", "http://xn--example-.com/a", ""),
    ("ipv6", "http://u@[::1]", "/x"),
    ("ipv6-port", "https://[2001:db8::1]:", "/x?k=v"),
]
BOUNDS = {
    "quick": "23 URL skeletons (hole in path tail/middle/root, username, password, host tail, port, query key/value, fragment, before the scheme, scheme separator, after the host, whole string, and right after a '%' in path / query value / username / fragment; two with a concrete punycode host, one the idna codec accepts and one it refuses) x every hole string of length 0..2 (3 for the path / query holes after a '%') over all code points x quoted x strip_fragment (all four combinations up to length 1, one combination per skeleton beyond) x default_protocol in {https, http}; plus holes made of 2 escape tokens (+ one free character in the path) with symbolic hex digits (bytes >= 0x80) in path / query value / username / fragment; plus a stray '%' followed by two escapes in the path; plus an escaped 3-byte character (lead byte EF, symbolic continuation escapes) in the password",
    "thorough": "same skeletons, holes of length 0..4 (3 in netloc positions)",
}
STUBS = ["UTF-8 codec, urllib.parse.quote, dict table lookups, regex matcher (see C14)", "stdlib urlsplit / SplitResult properties / urlunsplit interpreted from source",
         "urllib.parse._checknetloc (NFKC check, C code below it) modelled exactly: ValueError iff the netloc holds one of the 19 code points whose NFKC form contains one of / ? # @ : (set computed from CPython's unicodedata at run time; composition never consumes a delimiter)",
         "idna codec: symbolic labels starting with xn-- are cut"]
TRUSTED = ["spec/url.py (reference denotation: cleaning, dot-segment / empty-segment resolution, query reader), spec/common.py pct_decode", "pysx engine", "z3"]
ASSUMPTIONS = ["inputs that the standard parser rejects (ValueError) are outside the property", "'' and absent userinfo/fragment are identified; '' and '/' paths are identified; '+' in queries is literal",
               "a '%2E' dot-segment denotes the same as '.'", "IDNA spelling of hosts is not decided (C code)"]
LONG = ("path-tail", "path-mid", "path-root", "query-key", "query-value", "fragment", "path-escape", "query-escape",
        "userinfo-escape", "fragment-escape", "path-escape-tail")


def canon(st, skel, n, quoted, strip_fragment, dp, shape=None, lead=""):
    name, pre, post = SKELETONS[skel]
    hole = cat(lead, sym_tokens(st, "t", shape)) if shape else sym_str(st, "s", n)
    u = cat(pre, hole, post)
    for label, prop in S.ALL:
        run_prop(st, label, prop, u, quoted, strip_fragment, dp)


N3 = ("path-escape", "query-escape")


def items(tier):
    quick = tier == "quick"
    out = []
    for i, (name, pre, post) in enumerate(SKELETONS):
        if quick:
            nmax = 3 if name in N3 else 2
        else:
            nmax = 4 if name in LONG else 3
        for n in range(0, nmax + 1):
            for quoted in (False, True):
                for sf in (False, True):
                    if quick and n == 2 and (quoted, sf) != ((i % 2 == 0), (i % 2 == 0)):
                        continue
                    if quick and n == 3 and (quoted, sf) != (False, False):
                        continue
                    dp = "https" if (n + sf) % 2 == 0 else "http"
                    it = {"fn": "canon", "params": {"skel": i, "n": n, "quoted": quoted, "strip_fragment": sf, "dp": dp},
                          "name": "%s n=%d quoted=%s sf=%s" % (name, n, quoted, sf), "weight": 8 ** n}
                    if n >= 2:
                        it["defer_depth"] = 8 if n == 2 else 12
                    out.append(it)
    # holes made of escape tokens (e = escape of a byte >= 0x80 with symbolic hex digits, c = any code point):
    # reaches multi-byte UTF-8 sequences, complete, truncated and ill-formed
    names = [s_[0] for s_ in SKELETONS]
    for name, shapes in (("path-tail", ["eec"]), ("query-value", ["ee"])):
        if not quick:
            shapes = ["ee", "eec", "cee", "eee", "eeec"]
        for sh in shapes:
            for quoted in ((False,) if quick else (False, True)):
                out.append({"fn": "canon", "params": {"skel": names.index(name), "n": 0, "quoted": quoted, "strip_fragment": quoted, "dp": "https", "shape": sh},
                            "name": "%s tokens=%s quoted=%s" % (name, sh, quoted), "weight": 30 ** len(sh), "defer_depth": 8})
    # a stray '%' followed by two escapes (symbolic hex digits): what they decode to must not fuse with it into a new escape
    for name in (("path-tail",) if quick else ("path-tail", "query-value", "userinfo", "fragment")):
        for quoted in ((False,) if quick else (False, True)):
            out.append({"fn": "canon", "params": {"skel": names.index(name), "n": 0, "quoted": quoted, "strip_fragment": quoted, "dp": "https", "shape": "EE", "lead": "%"},
                        "name": "%s tokens=%%EE quoted=%s" % (name, quoted), "weight": 900, "defer_depth": 8})
    # userinfo holding an escaped 3-byte character (fixed lead byte, two symbolic continuation escapes): reaches the
    # characters whose NFKC form contains a delimiter, which the url parser refuses in a netloc
    for name, leads in (("password", ["%EF"]), ("userinfo", [])) if quick else (("password", ["%EF", "%E2"]), ("userinfo", ["%EF", "%E2"])):
        for lead in leads:
            for quoted in ((False,) if quick else (False, True)):
                out.append({"fn": "canon", "params": {"skel": names.index(name), "n": 0, "quoted": quoted, "strip_fragment": quoted, "dp": "https", "shape": "ee", "lead": lead},
                            "name": "%s tokens=%see quoted=%s" % (name, lead, quoted), "weight": 900, "defer_depth": 8, "netloc_ascii": False})
    return out
