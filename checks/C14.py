"""C14: quote kernel — every string up to N characters over the whole code-point domain."""
from pysx.api import sym_str, sym_tokens
from pysx.harness import run_prop
from ural import quote as Q
from spec import c14 as S

UNQUOTERS = {
    "auth_item": (Q.safely_unquote_auth_item, "@:/?#"),
    "path": (Q.safely_unquote_path, "/?#"),
    "query_item": (Q.safely_unquote_query_item, "&=#"),
    "fragment": (Q.safely_unquote_fragment, ""),
}
# partial objects have no qualified name: register one for replay files
from pysx.harness import name_fn
for _k in UNQUOTERS:
    name_fn(UNQUOTERS[_k][0], "ural.quote:safely_unquote_" + _k)

BOUNDS = {
    "quick": "every str of length 0..3 (four safely_unquote_*, safely_quote), 0..5 (upper_quoted) over all Unicode scalar values (no surrogates); "
             "plus, for the unquoters, every string of the token shapes ee, eec, cE, Ec (e = escape of a byte >= 0x80 with two symbolic hex digits, E = any escape, c = any code point)",
    "thorough": "every str of length 0..6 (four safely_unquote_*), 0..5 (safely_quote), 0..7 (upper_quoted) over all Unicode scalar values (no surrogates); token shapes cE, Ec, EE, EEc, cEE, eee, EEE, eeee, eeec, ceee, EcE, eece (E = any escape)",
}
STUBS = ["str.encode('utf-8') / bytes.decode('utf-8','replace'): forking UTF-8 codec model (values.utf8_*)",
         "urllib.parse.quote: per-UTF-8-byte keep/escape model (models.m_quote)",
         "HEX_TO_BYTE.get: decision-tree over the live dict's entries (values.lookup_concrete)",
         "regex: backtracking matcher over CPython's sre parse tree (rx.py); char classes asked from CPython"]
TRUSTED = ["spec/common.py:pct_decode (reference percent-decoder)", "pysx engine", "z3"]
ASSUMPTIONS = ["strings contain no lone surrogates", "strings longer than the stated bound are outside the claim"]


def unquoter(st, which, n):
    f, delims = UNQUOTERS[which]
    s = sym_str(st, "s", n)
    run_prop(st, "%s/same_bytes" % which, S.unquote_same_bytes, f, s)
    run_prop(st, "%s/idempotent" % which, S.unquote_idempotent, f, s)
    run_prop(st, "%s/no_raw_space" % which, S.unquote_no_raw_space, f, s)
    run_prop(st, "%s/no_new_control" % which, S.unquote_no_new_control, f, s)
    if delims:
        run_prop(st, "%s/keeps_delimiters" % which, S.unquote_keeps_delimiters, f, s, delims)


def unquoter_tokens(st, which, shape):
    f, delims = UNQUOTERS[which]
    s = sym_tokens(st, "t", shape)
    run_prop(st, "%s/same_bytes" % which, S.unquote_same_bytes, f, s)
    run_prop(st, "%s/idempotent" % which, S.unquote_idempotent, f, s)
    run_prop(st, "%s/no_raw_space" % which, S.unquote_no_raw_space, f, s)
    run_prop(st, "%s/no_new_control" % which, S.unquote_no_new_control, f, s)
    if delims:
        run_prop(st, "%s/keeps_delimiters" % which, S.unquote_keeps_delimiters, f, s, delims)


def quoter(st, n):
    s = sym_str(st, "s", n)
    f = Q.safely_quote
    run_prop(st, "quote/ascii_wellformed", S.quote_ascii_wellformed, f, s)
    run_prop(st, "quote/same_bytes", S.quote_same_bytes, f, s)
    run_prop(st, "quote/idempotent", S.quote_idempotent, f, s)


def upper(st, n):
    s = sym_str(st, "s", n)
    run_prop(st, "upper_quoted/only_hex_in_escapes", S.upper_only_hex_in_escapes, Q.upper_quoted, s)


def items(tier):
    out = []
    nu, nq, nup = (3, 3, 5) if tier == "quick" else (6, 5, 7)
    for which in UNQUOTERS:
        for n in range(0, nu + 1):
            it = {"fn": "unquoter", "params": {"which": which, "n": n}, "name": "unquote_%s n=%d" % (which, n),
                  "weight": 6 ** n}
            if n >= 4:
                it["defer_depth"] = 8
            out.append(it)
    shapes = ["ee", "eec", "cE", "Ec"] if tier == "quick" else ["cE", "Ec", "EE", "EEc", "cEE", "eee", "EEE", "eeee", "eeec", "ceee", "EcE", "eece"]
    for which in UNQUOTERS:
        for sh in shapes:
            out.append({"fn": "unquoter_tokens", "params": {"which": which, "shape": sh}, "name": "unquote_%s tokens=%s" % (which, sh),
                        "weight": 40 ** len(sh), "defer_depth": 8})
    for n in range(0, nq + 1):
        it = {"fn": "quoter", "params": {"n": n}, "name": "safely_quote n=%d" % n, "weight": 8 ** n}
        if n >= 3:
            it["defer_depth"] = 8
        out.append(it)
    for n in range(0, nup + 1):
        it = {"fn": "upper", "params": {"n": n}, "name": "upper_quoted n=%d" % n, "weight": 3 ** n}
        if n >= 7:
            it["defer_depth"] = 10
        out.append(it)
    return out
