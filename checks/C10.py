"""C10: TrieDict vs dict over every history of assignments with symbolic keys (tokens compared
only for equality, so symbolic characters cover every alphabet)."""
import itertools
from pysx.api import sym_str
from pysx.harness import run_prop
from spec import c10 as S

BOUNDS = {
    "quick": "every history of <= 3 assignments with str/list/tuple keys of length 0..3 (symbolic tokens over all code points), values 'A', None, 'B', then every observer on every query key of length 0..4",
    "thorough": "histories of <= 5 assignments (4-5: each multiset of key lengths in three insertion orders), keys of length 0..3, queries of length 0..4",
}
STUBS = ["dict with symbolic keys: values.SymDict (lookup forks on key equality)"]
TRUSTED = ["spec/c10.py (dict-based reference, quadratic longest-prefix)", "pysx engine", "z3"]
ASSUMPTIONS = ["iteration order is not compared against dict order, only items/prefixes/values/iter among themselves",
               "longer histories / keys than the bound are outside the claim (no inductive step built)"]
VALUES = ["A", None, "B", "A"]


def history(st, lens, qlen, ktype):
    keys = []
    for i, n in enumerate(lens):
        s = sym_str(st, "k%d" % i, n)
        toks = [s[j:j + 1] if isinstance(s, str) else None for j in range(n)]
        if ktype == "str":
            keys.append(s)
        else:
            from pysx.values import elems, mk
            toks = [mk("str", [c]) for c in elems(s)]
            keys.append(toks if ktype == "list" else tuple(toks))
    q = sym_str(st, "q", qlen)
    if ktype != "str":
        from pysx.values import elems, mk
        qt = [mk("str", [c]) for c in elems(q)]
        q = qt if ktype == "list" else tuple(qt)
    run_prop(st, "history/%s" % ktype, S.triedict_matches_dict, keys, VALUES[:len(lens)], q)


def items(tier):
    quick = tier == "quick"
    kmax, lmax, qmax = (3, 3, 4) if quick else (5, 3, 4)
    out = []
    for k in range(0, kmax + 1):
        for lens in itertools.product(range(0, lmax + 1), repeat=k):
            if k >= 4 and list(lens) != sorted(lens) and list(lens) != sorted(lens, reverse=True) \
                    and list(lens) != sorted(lens)[1:] + sorted(lens)[:1]:
                # 4-5 assignments: keep each multiset of key lengths in three insertion orders
                # (ascending, descending, rotated); keys of equal length are symbolic, so their
                # relative order is covered anyway
                continue
            for ql in range(0, qmax + 1):
                for kt in ("str", "list", "tuple"):
                    if kt != "str" and (k > 3 or sum(lens) + ql > 9):
                        continue
                    out.append({"fn": "history", "params": {"lens": list(lens), "qlen": ql, "ktype": kt},
                                "name": "%s lens=%s q=%d" % (kt, list(lens), ql), "weight": 3 ** (sum(lens) + ql)})
    return out
