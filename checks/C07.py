"""C07: helper functions vs URL-level functions on the same symbolic input."""
from pysx.api import sym_str, cat, HEXDOM
from pysx.harness import run_prop
from spec import c07 as S
from checks.nskel import SKELETONS

BOUNDS = {
    "quick": "21 shared URL skeletons with holes of length 0..1 (0..2 for two host holes and the path hole after a '%') + 5 host skeletons with holes of length 0..2, over all code points; an escaped 2-byte character (%C3 + a symbolic continuation escape) in path / routing fragment / query key and value; options normalize_amp / strip_suffix / suffix_aware / infer_redirection in {F,T}",
    "thorough": "holes of length 0..3 (host skeletons 0..4)",
}
STUBS = ["see C01"]
TRUSTED = ["pysx engine", "z3 (differential: helper vs URL-level function)"]
ASSUMPTIONS = ["inputs on which the URL-level function raises are skipped (C05)", "bare-hostname helpers are compared only when the argument is a bare hostname (no delimiter / port / userinfo inside)"]
HOSTS = [("lang", "fr-", ".facebook.com"), ("www", "www.", "x.co.uk"), ("amp", "amp-", ".x.fr"), ("plain", "", ".com"), ("suffix", "m.fr.x.", "")]


def urls(st, skel, n, flag):
    name, pre, post = SKELETONS[skel]
    u = cat(pre, sym_str(st, "s", n, HEXDOM if name.startswith(("path-escape", "fragment-escape")) else None), post)
    run_prop(st, "normalized_hostname_of_url", S.normalized_hostname_of_url, u, flag, not flag)
    run_prop(st, "fingerprinted_hostname_of_url", S.fingerprinted_hostname_of_url, u, flag, True)
    run_prop(st, "canonicalized_stems", S.canonicalized_stems, u, flag)
    run_prop(st, "normalized_stems", S.normalized_stems, u, flag)
    run_prop(st, "fingerprinted_stems", S.fingerprinted_stems, u, flag)
    run_prop(st, "hostname_of_url", S.hostname_of_url, u)


def escaped_letter(st, where, flag):
    """an escaped 2-byte character (lead byte C3: Latin-1 letters, upper- and lower-case) in the path / fragment / query"""
    from pysx.api import sym_tokens
    t = cat("%C3", sym_tokens(st, "t", "e"))
    u = {"path": cat("http://x.fr/", t, "cole"), "fragment": cat("http://x.fr/a#/", t, "cole"), "query": cat("http://x.fr/a?k=", t, "&", t, "=1")}[where]
    run_prop(st, "canonicalized_stems", S.canonicalized_stems, u, flag)
    run_prop(st, "normalized_stems", S.normalized_stems, u, flag)
    run_prop(st, "fingerprinted_stems", S.fingerprinted_stems, u, flag)


NESTED = [("http://blog.co.uk.", "blogspot.com/p"), ("https://a.co.jp.github.io/", ""), ("http://www.x", ".com.au.uk.com/")]


def nested(st, i, n):
    pre, post = NESTED[i]
    u = cat(pre, sym_str(st, "s", n), post)
    run_prop(st, "fingerprinted_stems_without_suffix", S.fingerprinted_stems_without_suffix, u)


def hosts(st, i, n, flag):
    name, pre, post = HOSTS[i]
    h = cat(pre, sym_str(st, "s", n), post)
    run_prop(st, "normalized_hostname_of_host", S.normalized_hostname_of_host, h, flag)
    run_prop(st, "fingerprinted_hostname_of_host", S.fingerprinted_hostname_of_host, h, flag)
    run_prop(st, "fingerprinted_hostname_of_host", S.fingerprinted_hostname_of_host, h, not flag)


N2 = ("host-prefix", "host-suffix", "path-escape-index")


def items(tier):
    quick = tier == "quick"
    out = []
    for where in ("path", "fragment", "query"):
        for flag in ((False,) if quick else (False, True)):
            out.append({"fn": "escaped_letter", "params": {"where": where, "flag": flag}, "name": "escaped letter in %s flag=%s" % (where, flag), "weight": 60})
    for i in range(len(SKELETONS)):
        nmax = (2 if SKELETONS[i][0] in N2 else 1) if quick else 3
        for n in range(0, nmax + 1):
            for flag in (False, True):
                if quick and n >= 1 and flag != (i % 2 == 0):
                    continue
                it = {"fn": "urls", "params": {"skel": i, "n": n, "flag": flag}, "name": "%s n=%d flag=%s" % (SKELETONS[i][0], n, flag), "weight": 8 ** n}
                if n >= 2:
                    it["defer_depth"] = 8
                out.append(it)
    for i in range(len(NESTED)):
        for n in range(0, (1 if quick else 3) + 1):
            out.append({"fn": "nested", "params": {"i": i, "n": n}, "name": "nested suffix %d n=%d" % (i, n), "weight": 8 ** n})
    for i in range(len(HOSTS)):
        for n in range(0, (2 if quick else 4) + 1):
            it = {"fn": "hosts", "params": {"i": i, "n": n, "flag": bool(n % 2)}, "name": "host %s n=%d" % (HOSTS[i][0], n), "weight": 8 ** n}
            if n >= 2:
                it["defer_depth"] = 8
            out.append(it)
    return out
