"""C06: fingerprint_url invariances (relational)."""
from pysx.api import sym_str, cat
from pysx.harness import run_prop
from pysx.values import elems, mk, z_and, z_or, z_not, ceq, member_of_concrete
from pysx import chars as C
from spec import c06 as S
from checks.C02 import _WS_CTRL
from checks.nskel import SKELETONS
from ural.data import ISO_3166_1_COUNTRIES_ALPHA_2
import z3

BOUNDS = {
    "quick": "case flips of symbolic ASCII letters in scheme / host / path / query / fragment (holes of length <= 2) and of an escaped Latin-1 letter (%C3%80..9E vs %C3%A0..BE) in path / query / fragment; gl / hl items on a plain host and on youtube / facebook hosts; any port 1..65535 (symbolic 1-5 digit string); "
             "language labels 'xx' and 'xx-yy' with symbolic letters drawn from the ISO-3166 set in front of hosts with 2 and 3 labels, of a host with no suffix of the bundled list (`wiki.corp.internal`) and of an IPv4 host; gl / hl items at 3 positions with symbolic values; "
             "strip_suffix=True across 10 bundled suffixes of 1-4 labels (plain / wildcard instance / private); result has no scheme / userinfo / port on the 19 shared skeletons with holes of length <= 2",
    "thorough": "holes of length <= 3",
}
STUBS = ["see C01; ISO-3166 membership as a disjunction over the live set"]
TRUSTED = ["pysx engine", "z3 (relational)"]
ASSUMPTIONS = ["platform_aware=False", "suffix swap uses a fixed list of bundled suffixes (the choice of suffix is enumerated, the rest symbolic)"]
UP = C.CharSet([(0x41, 0x5A)])
LOW = C.CharSet([(0x61, 0x7A)])
# every entry is a public suffix for every label put in front of it (wildcard *parents* such as "ck" or
# "kawasaki.jp" are not: the label in front would become part of the suffix)
SUFFIXES = ["com", "fr", "co.uk", "com.au", "gov.uk", "blogspot.com", "github.io", "x.kawasaki.jp", "org", "pvt.k12.ma.us"]


def _upper(he):
    return [c - 32 for c in he]


def inv(st, kind, n, strip_suffix):
    h = sym_str(st, "s", n)
    he = elems(h)
    if kind.startswith("case-"):
        st.assume(z_and([LOW.cond(c) for c in he]), "lower-case ASCII letters")
        H = mk("str", _upper(he))
        where = kind[5:]
        if where == "host":
            u, v = cat("http://a", h, ".x.fr/p"), cat("http://a", H, ".x.fr/p")
        elif where == "all":
            u, v = cat("http://w", h, ".x.fr/p", h, "?k", h, "=v", h, "#f", h), cat("HTTP://W", H, ".X.FR/P", H, "?K", H, "=V", H, "#F", H)
        elif where == "path":
            u, v = cat("http://x.fr/a", h, "/b"), cat("http://x.fr/A", H, "/B")
        else:
            u, v = cat("http://x.fr/?b=", h, "&a", h, "=1"), cat("http://x.fr/?B=", H, "&A", H, "=1")
    elif kind == "port":
        st.assume(z_and([C.CharSet([(0x30, 0x39)]).cond(c) for c in he]), "digits")
        st.assume(len(he) >= 1, "non-empty")
        # value in 1..65535
        v_ = z3.BitVecVal(0, 32)
        for c in he:
            v_ = v_ * 10 + (z3.ZeroExt(11, c) - 48)
        st.assume(z3.And(z3.UGE(v_, 1), z3.ULE(v_, 65535)), "port in 1..65535")
        u, v = cat("https://x.fr/a?k=v"), cat("https://x.fr:", h, "/a?k=v")
    elif kind.split("-")[0] in ("lang2", "lang5"):
        if kind.startswith("lang5"):
            if n != 4:
                st.assume(False, "n/a")
            up = [c - 32 for c in he]
            st.assume(z_and([LOW.cond(c) for c in he]), "letters")
            st.assume(member_of_concrete(mk("str", up[:2]), ISO_3166_1_COUNTRIES_ALPHA_2), "language code in ISO set")
            st.assume(member_of_concrete(mk("str", up[2:]), ISO_3166_1_COUNTRIES_ALPHA_2), "country code in ISO set")
            lab = cat(mk("str", he[:2]), "-", mk("str", up[2:]))
        else:
            if n != 2:
                st.assume(False, "n/a")
            st.assume(z_and([LOW.cond(c) for c in he]), "letters")
            st.assume(member_of_concrete(mk("str", [c - 32 for c in he]), ISO_3166_1_COUNTRIES_ALPHA_2), "code in ISO set")
            lab = h
        # hosts without a suffix of the bundled list (intranet name, IPv4): split_suffix answers None on them
        rest = {"3labels": "www.a.x.co.uk", "nosuffix": "wiki.corp.internal", "ipv4": "10.0.0.12"}.get(kind.partition("-")[2], "x.fr")
        u, v = cat("http://", rest, "/p?k=v"), cat("http://", lab, ".", rest, "/p?k=v")
    elif kind == "glhl":
        st.assume(z_and([z_not(_WS_CTRL.cond(c)) for c in he]), "plain")
        st.assume(z_and([z_not(z_or([ceq(c, 38), ceq(c, 35)])) for c in he]), "no & #")
        u = cat("http://x.fr/p?a=1&b=2")
        v = cat("http://x.fr/p?hl=", h, "&a=1&gl=", h, "&b=2&HL=", h)
    elif kind in ("glhl-youtube", "glhl-facebook"):
        # hosts that have a query filter of their own
        st.assume(z_and([z_not(_WS_CTRL.cond(c)) for c in he]), "plain")
        st.assume(z_and([z_not(z_or([ceq(c, 38), ceq(c, 35)])) for c in he]), "no & #")
        host = "www.youtube.com/results" if kind == "glhl-youtube" else "www.facebook.com/search"
        u = cat("https://", host, "?q=cats")
        v = cat("https://", host, "?hl=", h, "&q=cats&gl=", h)
    elif kind == "escaped-case":
        # an upper-case Latin-1 letter written as an escape (%C3%80..%C3%9E) against its lower-case form (%C3%A0..%C3%BE)
        if n != 2:
            st.assume(False, "n/a")
        d1, d2 = he
        st.assume(z_or([ceq(d1, 0x38), ceq(d1, 0x39)]), "first digit 8 or 9")
        st.assume(C.CharSet([(0x30, 0x39), (0x41, 0x46), (0x61, 0x66)]).cond(d2), "hex digit")
        st.assume(z_not(z_and([ceq(d1, 0x39), z_or([ceq(d2, 0x37), ceq(d2, 0x46), ceq(d2, 0x66)])])), "a cased letter (not x D7, sharp s DF)")
        e1 = z3.If(d1 == 0x38, z3.BitVecVal(0x41, d1.size()), z3.BitVecVal(0x42, d1.size()))
        lo = mk("str", [e1, d2])
        u = cat("http://x.fr/p%C3%", h, "t?k=%C3%", h, "#/r%C3%", h)
        v = cat("http://x.fr/p%C3%", lo, "t?k=%C3%", lo, "#/r%C3%", lo)
    elif kind.startswith("suffix-"):
        i = int(kind[7:])
        st.assume(z_and([C.CharSet([(0x61, 0x7A), (0x30, 0x39)]).cond(c) for c in he]), "label characters")
        u = cat("http://www.s", h, "q.", SUFFIXES[0], "/p?k=v")
        v = cat("http://www.s", h, "q.", SUFFIXES[i], "/p?k=v")
        strip_suffix = True
    else:
        raise ValueError(kind)
    if kind.startswith("suffix-"):
        # first, so that the calls with strip_suffix=False really are the first ones on these hosts
        run_prop(st, "invariant/suffix-after-other-calls", S.same_fingerprint_after_other_calls, u, v)
    run_prop(st, "invariant/" + ("case" if kind == "escaped-case" else kind.split("-")[0]), S.same_fingerprint, u, v, strip_suffix)


def shape(st, skel, n, strip_suffix):
    name, pre, post = SKELETONS[skel]
    u = cat(pre, sym_str(st, "s", n), post)
    run_prop(st, "no_scheme_userinfo_port", S.no_scheme_userinfo_port, u, strip_suffix)


def items(tier):
    quick = tier == "quick"
    nmax = 2 if quick else 3
    out = []
    for kind in ["case-host", "case-all", "case-path", "case-query", "glhl"]:
        for n in range(0, nmax + 1):
            for ss in (False, True):
                if kind == "case-all" and n > 1 and quick:
                    continue
                out.append({"fn": "inv", "params": {"kind": kind, "n": n, "strip_suffix": ss}, "name": "%s n=%d ss=%s" % (kind, n, ss), "weight": 6 ** n})
    for kind in ("glhl-youtube", "glhl-facebook"):
        for n in range(0, nmax + 1):
            out.append({"fn": "inv", "params": {"kind": kind, "n": n, "strip_suffix": bool(n % 2)}, "name": "%s n=%d" % (kind, n), "weight": 6 ** n})
    for ss in (False, True):
        out.append({"fn": "inv", "params": {"kind": "escaped-case", "n": 2, "strip_suffix": ss}, "name": "escaped-case ss=%s" % ss, "weight": 40})
    for n in range(1, 6):
        out.append({"fn": "inv", "params": {"kind": "port", "n": n, "strip_suffix": bool(n % 2)}, "name": "port digits=%d" % n, "weight": 3 ** n})
    for kind, n in (("lang2", 2), ("lang2-3labels", 2), ("lang5", 4), ("lang2-nosuffix", 2), ("lang5-nosuffix", 4), ("lang2-ipv4", 2)):
        for ss in (False, True):
            out.append({"fn": "inv", "params": {"kind": kind, "n": n, "strip_suffix": ss}, "name": "%s ss=%s" % (kind, ss), "weight": 50})
    for i in range(1, len(SUFFIXES)):
        for n in range(0, 2 if quick else 3):
            out.append({"fn": "inv", "params": {"kind": "suffix-%d" % i, "n": n, "strip_suffix": True}, "name": "suffix %s n=%d" % (SUFFIXES[i], n), "weight": 6 ** n})
    for i in range(len(SKELETONS)):
        for n in range(0, nmax + 1):
            it = {"fn": "shape", "params": {"skel": i, "n": n, "strip_suffix": bool((i + n) % 2)}, "name": "shape %s n=%d" % (SKELETONS[i][0], n), "weight": 8 ** n}
            if n >= 2:
                it["defer_depth"] = 8
            out.append(it)
    return out
