"""C20: protocol helpers (fully symbolic url) and URL builders (symbolic keys / values)."""
from pysx.api import sym_str, cat
from pysx.harness import run_prop
from spec import c20 as S

AZ = [(0x41, 0x5A), (0x61, 0x7A)]
BOUNDS = {
    "quick": "protocol laws: every url str of length 0..5 x protocol in {http, https:, ftp://, wss, any 1-2 letter alphabetic protocol}; urls 'http://' + hole + 'http://' + hole (the protocol repeated further on), holes of length <= 2 / <= 1; "
             "builders: 3 bases x 4 path shapes x args of <= 2 items with every key/value str of length <= 2 (or None / False / True / 7 / 0) x fragment of length <= 2; "
             "add/get_query_argument: 4 urls x name, value of length <= 2; pathsplit: every str of length <= 5",
    "thorough": "protocol laws: url length 0..7; builders: keys/values/fragment of length <= 3; add/get: length <= 3; pathsplit: length <= 7",
}
STUBS = ["urllib.parse.quote model (models.m_quote)", "regex matcher over sre parse tree (rx.py)"]
TRUSTED = ["spec/c20.py reference query reader + spec/common.py pct_decode", "pysx engine", "z3"]
ASSUMPTIONS = ["protocol argument alphabetic (as the property states), optionally followed by ':' '//' '://'",
               "format_url: base without query/fragment; path argument free of '?' and '#'; float argument values outside the claim",
               "strings longer than the bound outside the claim"]

PROTOS = ["http", "https:", "ftp://", "wss"]


def proto_laws(st, n, proto, np_=0):
    u = sym_str(st, "u", n)
    p = proto if proto is not None else sym_str(st, "p", np_, AZ)
    run_prop(st, "ensure_idempotent", S.ensure_idempotent, u, p)
    run_prop(st, "force_idempotent", S.force_idempotent, u, p)
    run_prop(st, "force_starts_with_protocol", S.force_starts_with_protocol, u, p)
    run_prop(st, "ensure_keeps_rest", S.ensure_keeps_rest, u, p)
    run_prop(st, "force_keeps_rest", S.force_keeps_rest, u, p)
    run_prop(st, "force_is_ensure_of_stripped", S.force_is_ensure_of_stripped, u, p)


def proto_laws_repeated(st, n, m, proto):
    """the url carries its own protocol a second time further on (an embedded url): only the leading one is the protocol"""
    u = cat("http://", sym_str(st, "u", n), "http://", sym_str(st, "v", m))
    for label, prop in (("ensure_idempotent", S.ensure_idempotent), ("force_idempotent", S.force_idempotent),
                        ("force_starts_with_protocol", S.force_starts_with_protocol), ("ensure_keeps_rest", S.ensure_keeps_rest),
                        ("force_keeps_rest", S.force_keeps_rest), ("force_is_ensure_of_stripped", S.force_is_ensure_of_stripped)):
        run_prop(st, label, prop, u, proto)


BASES = ["http://x.fr", "http://x.fr/", "http://x.fr/a//"]
PATHS = [None, "p", "/p/q/", ["p", 3]]
SPECIALS = [None, False, True, 7, 0]


def _val(st, name, kind, k):
    if kind < len(SPECIALS):
        return SPECIALS[kind]
    return sym_str(st, name, k)


def builder(st, base, path, nargs, k, vkinds, as_list, fl):
    args = []
    for i in range(nargs):
        key = sym_str(st, "k%d" % i, k[i])
        args.append((key, _val(st, "v%d" % i, vkinds[i], k[i])))
    if not as_list:
        d = {}
        # a dict cannot hold two equal keys: assume distinct
        from pysx.values import v_eq, z_not
        if nargs == 2:
            st.assume(z_not(v_eq(args[0][0], args[1][0])), "dict keys distinct")
        from pysx.values import SymDict
        d = SymDict()
        for kk, vv in args:
            d.s_set(kk, vv)
        args = d
    fragment = None if fl is None else sym_str(st, "f", fl)
    base = BASES[base]
    path = PATHS[path]
    run_prop(st, "format/no_question_mark_when_nothing_retained", S.format_no_question_mark_when_nothing_retained, base, path, args, fragment)
    run_prop(st, "format/query_reads_back", S.format_query_reads_back, base, path, args, fragment)
    run_prop(st, "format/fragment_kept", S.format_fragment_kept, base, path, args, fragment)
    run_prop(st, "format/path_joined_once", S.format_path_joined_once, base, path, args, fragment)
    run_prop(st, "format/formatter_same_as_function", S.formatter_same_as_function, base, path, args, fragment)


URLS = ["http://x.fr", "http://x.fr/p?a=1", "http://x.fr/p?a=1&b#f", "x.fr/#f"]


def addget(st, url, nk, vkind, nv):
    name = sym_str(st, "n", nk)
    value = _val(st, "v", vkind, nv)
    u = URLS[url]
    # "when the key is new": not one of the existing keys a / b
    from pysx.values import v_eq, z_not, z_and
    st.assume(z_and([z_not(v_eq(name, "a")), z_not(v_eq(name, "b"))]), "key is new")
    run_prop(st, "add_get/reads_back", S.add_then_get_reads_back, u, name, value)
    run_prop(st, "add_get/keeps_rest", S.add_keeps_rest, u, name, value)


def psplit(st, n):
    p = sym_str(st, "p", n)
    run_prop(st, "pathsplit", S.pathsplit_spec, p)


def items(tier):
    q = tier == "quick"
    out = []
    nmax = 5 if q else 7
    for n in range(0, nmax + 1):
        for pr in PROTOS:
            it = {"fn": "proto_laws", "params": {"n": n, "proto": pr}, "name": "proto %s n=%d" % (pr, n), "weight": 4 ** n}
            if n >= 5:
                it["defer_depth"] = 8
            out.append(it)
    for n in range(0, (4 if q else 5) + 1):
        for np_ in (1, 2):
            out.append({"fn": "proto_laws", "params": {"n": n, "proto": None, "np_": np_},
                        "name": "proto sym%d n=%d" % (np_, n), "weight": 4 ** n * 2})
    kk = 2 if q else 3
    nv = len(SPECIALS)
    for pr in ("https", "ftp://"):
        for n, m in ((0, 0), (1, 0), (1, 1), (2, 1)) if q else ((0, 0), (1, 0), (1, 1), (2, 1), (2, 2), (3, 1)):
            out.append({"fn": "proto_laws_repeated", "params": {"n": n, "m": m, "proto": pr}, "name": "proto repeated %s %d+%d" % (pr, n, m), "weight": 4 ** (n + m)})
    for base in range(len(BASES)):
        for path in range(len(PATHS)):
            if q and (base + path) % 2:
                continue
            out.append({"fn": "builder", "params": {"base": base, "path": path, "nargs": 0, "k": [], "vkinds": [], "as_list": False, "fl": None},
                        "name": "format b%d p%d empty dict" % (base, path)})
            for vk in range(nv + 1):
                for kl in range(0, kk + 1):
                    if vk == nv and kl >= 2 and (base, path) != (0, 0):
                        continue    # symbolic value with a long key: one base/path combination is enough
                    it = {"fn": "builder", "params": {"base": base, "path": path, "nargs": 1, "k": [kl], "vkinds": [vk], "as_list": bool(vk % 2), "fl": kl % 3 if kl else None},
                          "name": "format b%d p%d 1 arg k=%d v=%d" % (base, path, kl, vk), "weight": 10 ** kl}
                    if vk == nv and kl >= 2:
                        it["defer_depth"] = 6
                    out.append(it)
    for vk0 in range(nv + 1):
        for vk1 in range(nv + 1):
            for as_list in (False, True):
                it = {"fn": "builder", "params": {"base": 0, "path": 1, "nargs": 2, "k": [1, 1], "vkinds": [vk0, vk1], "as_list": as_list, "fl": 1},
                      "name": "format 2 args v=%d,%d list=%s" % (vk0, vk1, as_list), "weight": 50}
                if vk0 == nv and vk1 == nv:
                    if q and as_list:
                        continue
                    it["defer_depth"] = 6
                out.append(it)
    for url in range(len(URLS)):
        for nk in range(1, kk + 1):
            for vk in range(nv + 1):
                it = {"fn": "addget", "params": {"url": url, "nk": nk, "vkind": vk, "nv": min(nk, kk)}, "name": "addget u%d nk=%d v=%d" % (url, nk, vk), "weight": 10 ** nk}
                if nk >= 2 and vk == nv:
                    it["defer_depth"] = 6
                out.append(it)
    for n in range(0, (5 if q else 7) + 1):
        out.append({"fn": "psplit", "params": {"n": n}, "name": "pathsplit n=%d" % n, "weight": 4 ** n})
    return out
