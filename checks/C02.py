"""C02: idempotence, mode round trips and spelling-insensitivity of canonicalize_url."""
from pysx.api import sym_str, cat
from pysx.harness import run_prop
from pysx.values import elems, mk, z_and, z_or, z_not, ceq
from pysx import chars as C
from spec import c02 as S
from checks.C01 import SKELETONS, LONG, STUBS

BOUNDS = {
    "quick": "idempotence + the four mode round trips on the 21 C01 skeletons with every hole string of length 0..1 (2 in path/query/fragment) x quoted, strip_fragment alternating; "
             "spelling transformations (case of scheme/host, explicit default port, lower-case hex in escapes (mid-segment, whole last segment, after a '.' in the last segment), escaping an unreserved character, raw space vs %20, "
             "surrounding whitespace, an embedded control character, './', 'x/../', '..' with escaped dots, doubled '/', empty '?' / '#') applied around a hole of length 0..2",
    "thorough": "holes of length 0..3 (2 in netloc positions) x quoted x strip_fragment; transformations around holes of length 0..3",
}
TRUSTED = ["pysx engine", "z3 (no oracle: the assertions relate calls of the real function)"]
ASSUMPTIONS = ["punycode vs Unicode spelling of hosts is not decided (idna codec is C code)", "urlsplit's NFKC check modelled exactly (see C01)",
               "holes longer than the bound are outside the claim"]


def idem(st, skel, n, quoted, sf):
    name, pre, post = SKELETONS[skel]
    u = cat(pre, sym_str(st, "s", n), post)
    run_prop(st, "idempotent", S.idempotent, u, quoted, sf)
    run_prop(st, "mode_round_trip", S.mode_round_trip, u, quoted, sf)


UNRESERVED = C.CharSet([(0x2D, 0x2E), (0x30, 0x39), (0x41, 0x5A), (0x5F, 0x5F), (0x61, 0x7A), (0x7E, 0x7E)])
HEXUP = "0123456789ABCDEF"
_ws = C.str_pred_set("isspace").ranges + [(0, 0x1F), (0x7F, 0x9F)]
_m = []
for lo, hi in sorted(_ws):
    if _m and lo <= _m[-1][1] + 1:
        _m[-1] = (_m[-1][0], max(_m[-1][1], hi))
    else:
        _m.append((lo, hi))
_WS_CTRL = C.CharSet(_m, "whitespace-or-control")


def _escape_of(ch):
    """'%XX' (symbolic) of an ASCII code point ch (z3 21-bit)"""
    import z3
    from pysx.models import _hex_digit
    from pysx.values import simp
    return ["%"] and [37, simp(_hex_digit(z3.Extract(7, 4, ch))), simp(_hex_digit(z3.Extract(3, 0, ch)))]


# each transformation: (name, builder(st, n) -> (u, v)) with u, v two spellings of one URL
def t_case(st, n):
    h = sym_str(st, "s", n)
    return cat("http://u@www.x", h, ".fr/P?q=Q#F"), cat("HTTP://u@WWW.X", mk("str", elems(h)), ".FR/P?q=Q#F") if False else None


def spelling(st, kind, n, quoted, sf):
    import z3
    h = sym_str(st, "s", n)
    he = elems(h)
    if kind == "host-case":
        # flip the case of the skeleton's scheme and host; the hole is in the path
        u = cat("http://u@www.x.fr:8080/P", h, "?q=Q#F")
        v = cat("HtTp://u@WwW.X.fR:8080/P", h, "?q=Q#F")
    elif kind == "host-case-sym":
        # hole inside the host: v is the upper-cased hole (ASCII letters only)
        st.assume(z_and([C.CharSet([(0x61, 0x7A)]).cond(c) for c in he]), "hole is lower-case letters")
        up = [c - 32 if not isinstance(c, int) else c - 32 for c in he]
        u = cat("http://a", h, ".fr/p")
        v = cat("http://a", mk("str", up), ".fr/p")
    elif kind == "default-port":
        u = cat("http://x.fr/a", h)
        v = cat("http://x.fr:80/a", h)
    elif kind == "default-port-https":
        u = cat("https://x.fr/a?", h)
        v = cat("https://x.fr:443/a?", h)
    elif kind == "hex-case":
        # an escape with symbolic hex digits, upper vs lower case
        st.assume(z_and([C.CharSet([(0x30, 0x39), (0x41, 0x46)]).cond(c) for c in he]), "hex digits")
        low = [z3.If(z3.UGE(c, 0x41), c + 32, c) if not isinstance(c, int) else c for c in he]
        if n != 2:
            raise_cut(st)
        u = cat("http://x.fr/a%", h, "/b?k=%", h, "#%", h)
        v = cat("http://x.fr/a%", mk("str", low), "/b?k=%", mk("str", low), "#%", mk("str", low))
    elif kind in ("hex-case-tail", "hex-case-dot-tail"):
        # the escape is the whole last path segment (or follows a '.' there): an escaped dot segment, in either case
        st.assume(z_and([C.CharSet([(0x30, 0x39), (0x41, 0x46)]).cond(c) for c in he]), "hex digits")
        low = [z3.If(z3.UGE(c, 0x41), c + 32, c) if not isinstance(c, int) else c for c in he]
        if n != 2:
            raise_cut(st)
        pre = "http://x.fr/d/e/%" if kind == "hex-case-tail" else "http://x.fr/d/e/.%"
        u = cat(pre, h)
        v = cat(pre, mk("str", low))
    elif kind == "escape-unreserved":
        # one unreserved character written raw or escaped, in path / query / fragment / userinfo
        if n != 1:
            raise_cut(st)
        c = he[0]
        st.assume(UNRESERVED.cond(c), "unreserved character")
        esc = mk("str", _escape_of(c))
        u = cat("http://u", h, "@x.fr/a", h, "b?k", h, "=v", h, "#f", h)
        v = cat("http://u", esc, "@x.fr/a", esc, "b?k", esc, "=v", esc, "#f", esc)
    elif kind == "space":
        u = cat("http://x.fr/a", h, " b?k= ", h, "#f ", h, "x")
        v = cat("http://x.fr/a", h, "%20b?k=%20", h, "#f%20", h, "x")
    elif kind == "outer-whitespace":
        # whitespace and control characters, mixed: both are cleaned away at the edges, in whatever order they come
        st.assume(z_and([_WS_CTRL.cond(c) for c in he]), "whitespace / control characters")
        u = cat("http://x.fr/a?k=v")
        v = cat(h, "http://x.fr/a?k=v", h)
    elif kind == "control":
        st.assume(z_and([C.CharSet([(0, 0x1F), (0x7F, 0x9F)]).cond(c) for c in he]), "control characters")
        u = cat("http://x.fr/ab?k=v#f")
        v = cat("ht", h, "tp://x.", h, "fr/a", h, "b?k", h, "=v#", h, "f")
    elif kind == "dot-segment":
        u = cat("http://x.fr/a/", h, "?q")
        v = cat("http://x.fr/./a/./", h, "?q")
    elif kind in ("dotdot-half-escaped-1", "dotdot-half-escaped-2", "dotdot-escaped"):
        # '..' with one or both dots written as an escape is the same dot segment
        seg = {"dotdot-half-escaped-1": ".%2E", "dotdot-half-escaped-2": "%2e.", "dotdot-escaped": "%2E%2e"}[kind]
        u = cat("http://x.fr/a/b/../c", h)
        v = cat("http://x.fr/a/b/", seg, "/c", h)
    elif kind == "dotdot-segment":
        u = cat("http://x.fr/a/", h, "#f")
        v = cat("http://x.fr/a/x/../", h, "#f")
    elif kind == "double-slash":
        u = cat("http://x.fr/a/", h)
        v = cat("http://x.fr//a///", h)
    elif kind == "empty-query":
        # no '?' / '#' inside the hole, so that the added delimiter is really empty
        st.assume(z_and([z_not(z_or([ceq(c, 63), ceq(c, 35)])) for c in he]), "hole without ? and #")
        st.assume(z_and([z_not(_WS_CTRL.cond(c)) for c in he]), "hole without whitespace / control characters")
        u = cat("http://x.fr/a/", h)
        v = cat("http://x.fr/a/", h, "?")
    elif kind == "empty-fragment":
        st.assume(z_and([z_not(ceq(c, 35)) for c in he]), "hole without #")
        st.assume(z_and([z_not(_WS_CTRL.cond(c)) for c in he]), "hole without whitespace / control characters")
        u = cat("http://x.fr/a?k=", h)
        v = cat("http://x.fr/a?k=", h, "#")
    else:
        raise ValueError(kind)
    run_prop(st, "spelling/" + kind, S.same_canonical, u, v, quoted, sf)
    # both spellings are also inputs of their own
    run_prop(st, "idempotent", S.idempotent, v, quoted, sf)


def raise_cut(st):
    st.assume(False, "shape not applicable")


KINDS = ["host-case", "host-case-sym", "default-port", "default-port-https", "hex-case", "hex-case-tail", "hex-case-dot-tail", "escape-unreserved", "space",
         "outer-whitespace", "control", "dot-segment", "dotdot-segment", "dotdot-half-escaped-1", "dotdot-half-escaped-2", "dotdot-escaped", "double-slash", "empty-query", "empty-fragment"]


def items(tier):
    quick = tier == "quick"
    out = []
    for i, (name, pre, post) in enumerate(SKELETONS):
        nmax = (2 if name in LONG else 1) if quick else (3 if name in LONG else 2)
        for n in range(0, nmax + 1):
            for quoted in (False, True):
                for sf in (False, True):
                    if quick and sf != (n % 2 == 0):
                        continue
                    it = {"fn": "idem", "params": {"skel": i, "n": n, "quoted": quoted, "sf": sf},
                          "name": "idem %s n=%d quoted=%s sf=%s" % (name, n, quoted, sf), "weight": 8 ** n}
                    if n >= 2:
                        it["defer_depth"] = 8 if n == 2 else 12
                    out.append(it)
    for kind in KINDS:
        ns = {"hex-case": [2], "hex-case-tail": [2], "hex-case-dot-tail": [2], "escape-unreserved": [1]}.get(kind, list(range(0, (2 if quick else 3) + 1)))
        for n in ns:
            for quoted in (False, True):
                sf = (n % 2 == 1)
                it = {"fn": "spelling", "params": {"kind": kind, "n": n, "quoted": quoted, "sf": sf},
                      "name": "spelling %s n=%d quoted=%s" % (kind, n, quoted), "weight": 8 ** n}
                if n >= 2:
                    it["defer_depth"] = 8 if n == 2 else 12
                out.append(it)
    return out
