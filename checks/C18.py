"""C18: site predicates vs the whole-label reference on the hostname; shortener tries; path-only / host-only predicates."""
from pysx.api import sym_str, cat
from pysx.harness import run_prop
from pysx.values import elems, z_and, z_or, z_not, ceq
from spec import c18 as S
from checks.C02 import _WS_CTRL

DOMAINS = {
    "facebook": ["facebook.com", "fb.me", "facebook.co"],
    "twitter": ["twitter.com", "x.com"],
    "instagram": ["instagram.com"],
    "telegram": ["telegram.org", "t.me", "telegram.me"],
}
# (name, prefix, suffix) around DOMAIN; the hole goes where '{}' is
PLACEMENTS = [
    ("glue-left", "http://{}D/p", None),
    ("glue-left-noscheme", "{}D/p?x=1", None),
    ("right", "https://D{}", None),
    ("right-slashes", "//D{}", None),
    ("userinfo-decoy", "http://D{}@evil.fr/", None),
    ("path-decoy", "http://evil.fr/{}D", None),
    ("query-decoy", "https://evil.fr/p?u={}D", None),
    ("fragment-decoy", "evil.fr/#{}@D", None),
    ("upper", "HTTP://WWW.{}D/", "upper"),
    ("userinfo-at", "http://j@{}@www.D/some/page", None),
]
BOUNDS = {
    "quick": "site predicates: 9 domains x 10 placements of a symbolic hole of length 0..2 (glued to the domain on the left / right, decoys in userinfo / path / query / fragment, upper case, a userinfo that itself contains '@'), string and pre-parsed form; "
             "youtube / shortener / should_resolve: 10 listed domains x 5 placements, holes 0..2, plus the 'l.' rule with a symbolic path; path-only and host-only predicates: pairs of urls sharing the documented component, holes 0..2",
    "thorough": "holes of length 0..3",
}
STUBS = ["see C01; live hostname tries walked symbolically (dict lookups fork over the entries of matching length)"]
TRUSTED = ["spec/c18.py (whole-label reference on the standard parser's hostname; homepage / 'l.' rule reference)", "pysx engine", "z3"]
ASSUMPTIONS = ["punycode / IDN labels not covered", "strings the standard parser rejects, and urls without host, are outside", "the string form is only compared for http(s), scheme-less and '//' urls"]


def site(st, name, dom, place, n):
    pname, tpl, mode = PLACEMENTS[place]
    h = sym_str(st, "s", n)
    d = DOMAINS[name][dom]
    if mode == "upper":
        d = d.upper()
    pre, post = tpl.replace("D", d).split("{}")
    u = cat(pre, h, post)
    run_prop(st, "%s/%s" % (name, pname), S.site_predicate, name, u)


TRIE_DOMAINS = ["youtube.com", "youtu.be", "youtube.co.uk", "bit.ly", "t.co", "goo.gl", "doi.org", "list-manage.com", "tinyurl.com", "ow.ly"]
TRIE_PLACEMENTS = [("glue-left", "http://{}D/abc"), ("right", "https://D{}"), ("path", "http://D/{}"), ("decoy", "http://evil.fr/{}D/x"), ("noscheme", "{}D/x1y?u=2")]


def trie(st, dom, place, n):
    pname, tpl = TRIE_PLACEMENTS[place]
    h = sym_str(st, "s", n)
    pre, post = tpl.replace("D", TRIE_DOMAINS[dom]).split("{}")
    u = cat(pre, h, post)
    run_prop(st, "youtube/%s" % pname, S.youtube_predicate, u)
    run_prop(st, "shorteners/%s" % pname, S.shortener_predicates, u)


def lrule(st, n):
    h = sym_str(st, "s", n)
    run_prop(st, "shorteners/l-rule", S.shortener_predicates, cat("http://l.example.com/", h))
    run_prop(st, "shorteners/l-rule", S.shortener_predicates, cat("http://l", h, "example.com/abc"))
    # homepage-looking one-token paths on an 'l.' host
    run_prop(st, "shorteners/l-rule-home", S.shortener_predicates, cat("https://l.example.com/hom", h))
    run_prop(st, "shorteners/l-rule-home", S.shortener_predicates, cat("http://u@l.bit.ly/inde", h, "?q#f"))


def same(st, pred, n, m):
    a = sym_str(st, "s", n)
    b = sym_str(st, "t", m)
    if pred in ("is_homepage", "could_be_html"):
        # same path (no '?' / '#' inside), everything else differs
        st.assume(z_and([z_not(z_or([ceq(c, 63), ceq(c, 35)])) for c in elems(a)]), "path hole without ? #")
        st.assume(z_and([z_not(_WS_CTRL.cond(c)) for c in elems(a)]), "path hole without whitespace/control")
        st.assume(z_and([z_not(z_or([ceq(c, 47), ceq(c, 64), ceq(c, 35), ceq(c, 63), ceq(c, 91), ceq(c, 93), ceq(c, 58)])) for c in elems(b)]), "host hole plain")
        st.assume(z_and([z_not(_WS_CTRL.cond(c)) for c in elems(b)]), "host hole without whitespace/control")
        u = cat("http://x.fr/", a)
        v = cat("https://u@w", b, ".y.com:81/", a, "?q=", b, "#", b)
    else:
        st.assume(z_and([z_not(z_or([ceq(c, 47), ceq(c, 64), ceq(c, 35), ceq(c, 63), ceq(c, 91), ceq(c, 93), ceq(c, 58), ceq(c, 92)])) for c in elems(a)]), "host hole plain")
        st.assume(z_and([z_not(_WS_CTRL.cond(c)) for c in elems(a) + elems(b)]), "no whitespace/control")
        u = cat("http://a", a, ".fr")
        v = cat("https://a", a, ".fr/", b, "?", b, "#", b)
    run_prop(st, "same_answer/" + pred, S.same_answer, pred, u, v)


def items(tier):
    quick = tier == "quick"
    nmax = 2 if quick else 3
    out = []
    for name, doms in DOMAINS.items():
        for d in range(len(doms)):
            for p in range(len(PLACEMENTS)):
                for n in range(0, nmax + 1):
                    if quick and n == 2 and d > 0 and p not in (0, 2, 4):
                        continue
                    out.append({"fn": "site", "params": {"name": name, "dom": d, "place": p, "n": n}, "name": "%s %s %s n=%d" % (name, doms[d], PLACEMENTS[p][0], n), "weight": 8 ** n})
    for d in range(len(TRIE_DOMAINS)):
        for p in range(len(TRIE_PLACEMENTS)):
            for n in range(0, nmax + 1):
                if quick and n == 2 and d > 3:
                    continue
                out.append({"fn": "trie", "params": {"dom": d, "place": p, "n": n}, "name": "trie %s %s n=%d" % (TRIE_DOMAINS[d], TRIE_PLACEMENTS[p][0], n), "weight": 10 ** n})
    for n in range(0, nmax + 2):
        out.append({"fn": "lrule", "params": {"n": n}, "name": "l-rule n=%d" % n, "weight": 8 ** n})
    for pred in ("is_homepage", "could_be_html", "has_special_host", "get_hostname"):
        for n in range(0, nmax + 1):
            for m in range(0, 2):
                out.append({"fn": "same", "params": {"pred": pred, "n": n, "m": m}, "name": "same %s %d+%d" % (pred, n, m), "weight": 8 ** (n + m)})
    return out
