"""C09: HostnameTrieSet over every history of adds of hostnames with symbolic labels."""
import itertools
from pysx.api import sym_str, cat
from pysx.harness import run_prop
from pysx.values import elems, mk
from spec import c09 as S

LETTERS = [(0x41, 0x5A), (0x61, 0x7A)]
BOUNDS = {
    "quick": "every history of <= 2 adds of hostnames of depth 1..3 (3 adds: total depth <= 4, query depth <= 3) whose labels are single symbolic lower-case letters, "
             "then match on every hostname of depth 1..4 embedded in one of 4 URL forms (bare, http://h/p, h:8080, HTTPS://h/?q#f), len, iteration; "
             "4 three-add histories of depths 3,3,1 / 3,1,3 / 1,3,3 / 3,3,2 (a subtree of two hostnames pruned at once); either-case labels for <= 2 adds of depth <= 2; add-order permutations for total depth <= 4; "
             "3 internationalized labels (Latin with and without a digit in the punycode, Cyrillic), each occurrence spelled in punycode or Unicode (symbolic choice), in 6 add/query shapes with symbolic neighbour labels (two of them with two such labels in one hostname, mixed spellings included)",
    "thorough": "as quick, with 3 adds up to total depth 6 and permutations up to total depth 5",
}
STUBS = ["SymDict for trie children", "regex matcher (SPECIAL_HOSTS_RE, PROTOCOL_RE)", "real urllib.parse.urlsplit interpreted from source"]
TRUSTED = ["spec/c09.py (label-suffix reference)", "pysx engine", "z3"]
ASSUMPTIONS = ["symbolic labels are ASCII letters: IP literals / localhost (documented undefined) are outside the claim; punycode / IDN labels only as the 3 concrete label pairs of the idn items (the idna codec runs natively on them)",
               "longer histories than the bound outside the claim"]
FORMS = [("", ""), ("http://", "/p"), ("", ":8080"), ("HTTPS://", "/?q#f")]


LOWER = [(0x61, 0x7A)]


def _host(st, name, depth, dom=LOWER):
    parts = []
    for i in range(depth):
        if i:
            parts.append(".")
        parts.append(sym_str(st, "%s_%d" % (name, i), 1, dom))
    return cat(*parts)


def history(st, depths, qdepth, form, mixed=False):
    dom = LETTERS if mixed else LOWER
    hosts = [_host(st, "h%d" % i, d, dom) for i, d in enumerate(depths)]
    q = _host(st, "q", qdepth, dom)
    pre, post = FORMS[form]
    run_prop(st, "history", S.trie_set_matches_reference, hosts, q, pre, post)


def order(st, depths, qdepth, perm):
    hosts = [_host(st, "h%d" % i, d) for i, d in enumerate(depths)]
    q = _host(st, "q", qdepth)
    run_prop(st, "order_independent", S.order_independent, hosts, list(perm), q)


# internationalized labels: (punycode spelling, Unicode spelling), checked against CPython's idna codec at import
IDN = [("xn--tlrama-bvab", "t\u00e9l\u00e9rama"), ("xn--mnchen-3ya", "m\u00fcnchen"), ("xn--80aswg", "\u0441\u0430\u0439\u0442")]
for _p, _u in IDN:
    assert _p.encode("ascii").decode("idna") == _u
IDN_SHAPES = [((("L",), ), ("q", "L")), ((("x", "L"), ("L",)), ("L",)), ((("L",), ("x", "L")), ("q", "x", "L")), ((("x", "L"), ("y", "L")), ("x", "L")),
              ((("L",), ), ("L", "L")), ((("L", "L"), ("L",)), ("x", "L"))]


def idn(st, i, shape, form):
    puny, uni = IDN[i]
    adds, query = IDN_SHAPES[shape]
    k = [0]

    def build(labels):
        spelled, canon = [], []
        for lb in labels:
            if lb == "L":
                k[0] += 1
                pick = st.branch(st.bool_var("spell%d" % k[0]))      # each occurrence in either spelling
                spelled.append(puny if pick else uni)
                canon.append(uni)
            else:
                c = sym_str(st, "l_" + lb, 1, LOWER)
                spelled.append(c)
                canon.append(c)
        sp, ca = [], []
        for j in range(len(labels)):
            sp += [spelled[j], "."]
            ca += [canon[j], "."]
        return cat(*(sp + ["fr"])), cat(*(ca + ["fr"]))
    hosts, canon_hosts = [], []
    for labels in adds:
        a, b = build(labels)
        hosts.append(a)
        canon_hosts.append(b)
    q, cq = build(query)
    pre, post = FORMS[form]
    run_prop(st, "idn_history", S.idn_history, hosts, canon_hosts, q, cq, pre, post)


def items(tier):
    quick = tier == "quick"
    kmax = 3
    out = []
    for k in range(0, kmax + 1):
        for depths in itertools.product(range(1, 4), repeat=k):
            if k == 3 and sum(depths) > (4 if quick else 6):
                continue
            for qd in range(1, 5):
                if k == 3 and qd > 3:
                    continue
                form = (sum(depths) + qd + k) % len(FORMS)
                out.append({"fn": "history", "params": {"depths": list(depths), "qdepth": qd, "form": form},
                            "name": "adds=%s q=%d form=%d" % (list(depths), qd, form), "weight": 3 ** (sum(depths) + qd)})
    # deep prunes: two hostnames under one direct child of a domain added later (and the other orders)
    for depths in ([3, 3, 1], [3, 1, 3], [1, 3, 3], [3, 3, 2]):
        out.append({"fn": "history", "params": {"depths": depths, "qdepth": 2, "form": 1}, "name": "deep prune adds=%s" % depths, "weight": 3 ** 8, "defer_depth": 10})
    # letter case: either case in every label, smaller histories
    for k in range(0, 3):
        for depths in itertools.product(range(1, 3), repeat=k):
            for qd in range(1, 4):
                out.append({"fn": "history", "params": {"depths": list(depths), "qdepth": qd, "form": 3, "mixed": True},
                            "name": "mixed-case adds=%s q=%d" % (list(depths), qd), "weight": 5 ** (sum(depths) + qd)})
    for i in range(len(IDN)):
        for shape in range(len(IDN_SHAPES)):
            out.append({"fn": "idn", "params": {"i": i, "shape": shape, "form": (i + shape) % len(FORMS)}, "name": "idn %s shape=%d" % (IDN[i][0], shape),
                        "weight": 30, "netloc_ascii": False})
    for k in (2, 3):
        for depths in itertools.product(range(1, 4), repeat=k):
            if sum(depths) > (4 if quick else 5):
                continue
            for perm in itertools.permutations(range(k)):
                if list(perm) == list(range(k)):
                    continue
                out.append({"fn": "order", "params": {"depths": list(depths), "qdepth": min(4, max(depths) + 1), "perm": list(perm)},
                            "name": "order %s perm=%s" % (list(depths), list(perm)), "weight": 3 ** sum(depths)})
    return out
