"""C17: urls_from_html str == bytes; links_from_html post-conditions."""
from pysx.api import sym_str, cat
from pysx.harness import run_prop
from spec import c17 as S

DOCS = [
    ("dq-href", '<p><a href="', '">x</a></p>'),
    ("sq-href", "<a class=c href='", "'>x</a>"),
    ("bare-href", "<a href=", " id=i>x</a>"),
    ("upper", '<A HREF="', '" CLASS="c">X</A>'),
    ("before-href", "<a", 'href="http://x.fr/a">x</a>'),
    ("attr-between", '<a id="i"', ' href="b.html">x</a>'),
    ("tag-name", "<", ' href="http://x.fr/">x</a>'),
    ("unclosed", '<a href="http://x.fr/', ''),
    ("script", '<script>var s = \'<a href="http://in.fr/', '">\';</script><a href="http://out.fr/">o</a>'),
    ("script-tag", "<", 'ipt><a href="http://in.fr/"></script><a href="/out">o</a>'),
    ("script-close", '<script><a href="http://in.fr/"></', '><a href="/out">o</a>'),
    ("entity", '<a href="http://x.fr/?a=1&amp;', '=2">x</a>'),
    ("two", '<a href="http://x.fr/a">1</a>', '<a href="http://x.fr/a">2</a>'),
    ("nonascii", '<a title="é" href="http://é.fr/', '">é</a>'),
]
BASES = ["http://x.fr/a/b.html", "https://www.y.com", "HTTP://X.FR:80/a/../c?q#f"]
HREF_PREFIX = ["", "/", "../", "//z.org/", "http://x.fr/a/", "#", "javascript:", "mailto:", "HTTP://X.FR/", "http://nope.zzzz/", "?", "/c?q", "http://x.fr/c?q#"]
BOUNDS = {
    "quick": "urls_from_html: 5 one-anchor documents (exact expected list) + 14 document skeletons (three quoting styles, upper-case names, holes in tag-syntax positions, unclosed tag, script blocks with holes in the tag names, entity, non-ASCII) x hole strings of length 0..2 over all code points, as str and as its UTF-8 bytes; "
             "script blocks whose opening and closing tag names are 'script' in every combination of letter cases; links_from_html: 3 bases x 13 href prefixes x href holes of length 0..2 x canonicalize / unique / strip_fragment",
    "thorough": "holes of length 0..3",
}
STUBS = ["see C01; html.unescape interpreted from the stdlib source (entity table lookups as disjunctions)", "UTF-8 encode / decode models"]
TRUSTED = ["spec/c17.py", "pysx engine + regex matcher (str and bytes patterns)", "z3"]
ASSUMPTIONS = ["bytes documents are the UTF-8 encoding of the str document (errors= handling of undecodable bytes is outside)", "holes longer than the bound outside"]


def extract(st, skel, n):
    name, pre, post = DOCS[skel]
    doc = cat(pre, sym_str(st, "s", n), post)
    run_prop(st, "str_and_bytes_agree", S.str_and_bytes_agree, doc)
    run_prop(st, "hrefs_are_stripped", S.hrefs_are_stripped, doc)


ONE = [('<p><a href="', '">x</a></p>', '"'), ("<a class=c href='", "'>x</a>", "'"), ("<a href=", " id=i>x</a>", ""),
       ('<A CLASS="nav" HREF="', '">X</A>', '"'), ("<div><A Href='", "' ID=i>x</A></div>", "'")]


def one(st, i, n):
    pre, post, q = ONE[i]
    run_prop(st, "href_is_extracted", S.href_is_extracted, pre, sym_str(st, "s", n), post, q)


def links(st, base, pref, n, canon, unique, sf):
    href = cat(HREF_PREFIX[pref], sym_str(st, "s", n))
    run_prop(st, "single_href_is_resolved", S.single_href_is_resolved, BASES[base], href, canon, sf)
    doc = cat('<a href="', href, '">1</a><a href=\'http://x.fr/a/b.html\'>self</a><a href="', href, '">dup</a><a href="http://other.fr/p#f">o</a>')
    run_prop(st, "links_postconditions", S.links_postconditions, BASES[base], doc, canon, unique, sf)


def script_case(st, attrs):
    # the two tag names are 'script' in every letter case (each letter symbolic over its two cases)
    def name(tag):
        out = []
        for i, ch in enumerate("script"):
            out.append(sym_str(st, "%s%d" % (tag, i), 1, [(ord(ch), ord(ch)), (ord(ch.upper()), ord(ch.upper()))]))
        return cat(*out)
    run_prop(st, "script_blocks_are_skipped", S.script_blocks_are_skipped, name("o"), name("c"), attrs)


def items(tier):
    quick = tier == "quick"
    nmax = 2 if quick else 3
    out = []
    for i in range(len(DOCS)):
        for n in range(0, nmax + 1):
            it = {"fn": "extract", "params": {"skel": i, "n": n}, "name": "extract %s n=%d" % (DOCS[i][0], n), "weight": 8 ** n}
            if n >= 2:
                it["defer_depth"] = 8
            out.append(it)
    for i in range(len(ONE)):
        for n in range(0, nmax + 1):
            out.append({"fn": "one", "params": {"i": i, "n": n}, "name": "one anchor %d n=%d" % (i, n), "weight": 8 ** n})
    for attrs in ("", ' type="text/javascript"'):
        out.append({"fn": "script_case", "params": {"attrs": attrs}, "name": "script block, tag names in every letter case, attrs=%r" % attrs, "weight": 50})
    # self links of a base that carries a fragment, every option combination
    for pref in (11, 12):
        for n in range(0, 2):
            for bits in range(8):
                out.append({"fn": "links", "params": {"base": 2, "pref": pref, "n": n, "canon": bool(bits & 1), "unique": bool(bits & 2), "sf": bool(bits & 4)},
                            "name": "self-link %r n=%d opts=%d" % (HREF_PREFIX[pref], n, bits), "weight": 10 ** n})
    k = 0
    for b in range(len(BASES)):
        for p in range(len(HREF_PREFIX)):
            for n in range(0, nmax + 1):
                k += 1
                if quick and n == 2 and (b + p) % 3 != 0:
                    continue
                canon, unique, sf = bool(k & 1), bool(k & 2), bool(k & 4)
                it = {"fn": "links", "params": {"base": b, "pref": p, "n": n, "canon": canon, "unique": unique, "sf": sf},
                      "name": "links b%d %r n=%d c=%s u=%s sf=%s" % (b, HREF_PREFIX[p], n, canon, unique, sf), "weight": 10 ** n}
                if n >= 2:
                    it["defer_depth"] = 8
                out.append(it)
    return out
