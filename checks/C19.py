"""C19: totality, record validity and round trips of the platform parsers."""
from pysx.api import sym_str, cat
from pysx.harness import run_prop
from spec import c19 as S

# route skeletons per platform: (prefix, suffix) with a symbolic hole in between; holes may contain '/'
# and be empty, which is what truncates a route
ROUTES = {
    "facebook": [("https://www.facebook.com/", ""), ("https://www.facebook.com/groups/", ""), ("https://www.facebook.com/groups", "/permalink/1/"),
                 ("facebook.com/a/videos/", ""), ("https://facebook.com/", "/videos/"), ("https://m.facebook.com/a/posts/", ""),
                 ("https://www.facebook.com/groups/g/posts", ""), ("https://www.facebook.com/a/photos/", "/1"), ("https://www.facebook.com/a/photos/a.1/", ""),
                 ("https://www.facebook.com/profile.php", ""), ("https://www.facebook.com/permalink.php?id=3", ""), ("https://www.facebook.com/story.php?story_fbid=1", ""),
                 ("https://www.facebook.com/people/x", ""), ("https://www.facebook.com/photo.php?", ""), ("https://www.facebook.com/watch", ""),
                 ("https://l.facebook.com/l.php?u=", "&h=1"), ("https://www.facebook.com/groups/1", "")],
    "youtube": [("https://youtu.be", ""), ("https://youtu.be/", ""), ("https://www.youtube.com/watch?v=", "&list=PL1"), ("https://www.youtube.com/watch", ""),
                ("https://www.youtube.com/embed/", ""), ("https://www.youtube.com/shorts", ""), ("https://www.youtube.com/channel", ""),
                ("https://www.youtube.com/user/", "/videos"), ("https://www.youtube.com/c", ""), ("https://www.youtube.com/", ""),
                ("https://www.youtube.com/#", ""), ("https://www.youtube.com/watch?v=abcdefghij", ""), ("https://www.youtube.com/signin?next=%2Fwatch%3Fv%3D", ""),
                ("http://youtube.com/v/", ""), ("https://www.youtube.com/@", ""),
                ("https://www.youtube.com/c/", "atch"), ("https://www.youtube.com/@", "ATCH"), ("https://www.youtube.com/", "atch/"), ("https://www.youtube.com/", "eed")]
               # a handle / custom name that is also a route word (last letter symbolic)
               + [("https://www.youtube.com/@" + w[:-1], "") for w in ("shorts", "channel", "user", "embed", "playlist", "results", "live")]
               + [("https://www.youtube.com/c/" + w[:-1], "/videos") for w in ("shorts", "channel", "user", "embed")],
    "twitter": [("https://twitter.com/", ""), ("https://twitter.com/i", ""), ("https://twitter.com/i/lists", ""), ("https://x.com/a/status", ""),
                ("https://twitter.com/#!", ""), ("https://twitter.com/#!/i", ""), ("https://twitter.com/", "/status/1"), ("twitter.com/home", "")],
    "instagram": [("https://www.instagram.com/", ""), ("https://www.instagram.com/p", ""), ("https://www.instagram.com/p/", "/x"), ("https://www.instagram.com/reel/", ""),
                  ("https://www.instagram.com/reels/", ""), ("https://www.instagram.com/reels/videos", ""), ("https://www.instagram.com/u/p/", ""), ("instagram.com/", "/p/x")],
    "telegram": [("https://t.me/", ""), ("https://t.me/s", ""), ("https://t.me/s/", "/3"), ("https://t.me/s/joinchat", ""), ("https://t.me/joinchat", ""),
                 ("https://telegram.me/a/", ""), ("t.me/", "/1/2")],
    "google": [("https://docs.google.com/", ""), ("https://docs.google.com/document/d", ""), ("https://docs.google.com/document/d/e", "/pub"),
               ("https://docs.google.com/spreadsheets/d/", "/pub"), ("https://docs.google.com/document/", "/1/pub"), ("https://www.google.com/url?url=", "&sa=t"),
               ("https://www.google.com/amp/s/", ""), ("https://x.cdn.ampproject.org/c/s/", "")],
}
BOUNDS = {
    "quick": "6 platforms, 67 route skeletons in total (every route word of the property's vocabulary, truncated and complete) x every hole string of length 0..1 (0..2 on every third route) over all code points; "
             "every total function of the platform's family on each; convert_* on the facebook / telegram routes; record validity and round trips; fully symbolic strings of length 0..2 for every function",
    "thorough": "holes of length 0..3, free strings 0..4",
}
STUBS = ["see C01; stdlib parse_qs interpreted from source"]
TRUSTED = ["pysx engine", "z3", "the module's own validators (is_youtube_video_id, ...) as the definition of a valid id"]
ASSUMPTIONS = ["routes beyond the listed skeletons are outside", "round trips are decided for records reachable from the skeletons (fields satisfy what the parser produced)"]


def total(st, platform, route, n):
    pre, post = ROUTES[platform][route]
    u = cat(pre, sym_str(st, "s", n), post)
    for f in S.FAMILY[platform]:
        run_prop(st, "total/" + f, S.is_total, f, u)
    if platform == "facebook":
        run_prop(st, "total/convert_facebook_url_to_mobile", S.convert_only_raises_its_documented_error, "convert_facebook_url_to_mobile", u)
        run_prop(st, "round_trip/facebook", S.facebook_record_round_trips, u)
    elif platform == "telegram":
        run_prop(st, "total/convert_telegram_url_to_public", S.convert_only_raises_its_documented_error, "convert_telegram_url_to_public", u)
        run_prop(st, "valid/telegram", S.telegram_record_is_valid, u)
    elif platform == "youtube":
        run_prop(st, "valid_round_trip/youtube", S.youtube_record_is_valid_and_round_trips, u, True)
        run_prop(st, "valid_round_trip/youtube-nofix", S.youtube_record_is_valid_and_round_trips, u, False)
    elif platform == "instagram":
        run_prop(st, "valid/instagram", S.instagram_record_is_valid, u)
    elif platform == "google":
        run_prop(st, "round_trip/google", S.google_record_round_trips, u)


def relative(st, n):
    u = cat("/", sym_str(st, "s", n), "/posts/1")
    run_prop(st, "total/parse_facebook_url(relative)", S.relative_facebook_is_total, u)
    u = cat("groups", sym_str(st, "s", n))
    run_prop(st, "total/parse_facebook_url(relative)", S.relative_facebook_is_total, u)


def free(st, n, group):
    u = sym_str(st, "s", n)
    names = sorted(S.TOTAL)
    for f in names[group::4]:
        run_prop(st, "total/" + f, S.is_total, f, u)
    if group == 0:
        for f in sorted(S.CONVERT):
            run_prop(st, "total/" + f, S.convert_only_raises_its_documented_error, f, u)


def items(tier):
    quick = tier == "quick"
    nmax = 2 if quick else 3
    out = []
    for platform, routes in ROUTES.items():
        for r in range(len(routes)):
            for n in range(0, nmax + 1):
                if quick and n == 2 and r % 3 != 0:
                    continue
                it = {"fn": "total", "params": {"platform": platform, "route": r, "n": n}, "name": "%s %s n=%d" % (platform, routes[r][0][-24:], n), "weight": 8 ** n}
                if n >= 2:
                    it["defer_depth"] = 8
                out.append(it)
    for n in range(0, nmax + 1):
        out.append({"fn": "relative", "params": {"n": n}, "name": "facebook relative n=%d" % n, "weight": 8 ** n})
    for n in range(0, (2 if quick else 4) + 1):
        for g in range(4):
            it = {"fn": "free", "params": {"n": n, "group": g}, "name": "free n=%d g=%d" % (n, g), "weight": 8 ** n}
            if n >= 3:
                it["defer_depth"] = 10
            out.append(it)
    return out
