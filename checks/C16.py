"""C16: is_url monotonicity / whitespace / TLD clause; urls_from_text post-conditions."""
from pysx.api import sym_str, cat
from pysx.harness import run_prop
from pysx.values import elems, z_and
from pysx import chars as C
from spec import c16 as S

URLS = [("host-label", "http://a.", "/x"), ("tld", "http://www.x.", ""), ("path", "x.fr/a", "?q"), ("scheme", "", "://x.fr/a"), ("scheme-sep", "ftp", "x.fr"),
        ("port", "https://x.fr:", "/a"), ("space-path", "http://x.fr/a b", ""), ("userinfo", "http://u", "@x.fr"), ("ip", "http://192.168.0.", "/p"),
        ("localhost", "http://localhost", ""), ("free", "", ""), ("no-proto-tld", "x.", "")]
TEXTS = [("plain", "see http://x.fr/a", " end"), ("punct", "(https://x.fr/a?b=1", "), next"), ("markdown", "[link](http://x.fr/", ") ok"),
         ("markdown-url-text", "[http://a.fr/", "](http://b.fr/c) z"), ("markdown-truncated", "x [http://a.fr](", ""), ("quotes", "«http://x.fr/p", "»,"),
         ("adjacent", "http://a.fr/x", "http://b.fr/y"), ("free", "", ""), ("scheme-hole", "go to ", "://x.fr/a."), ("bracket-start", "[", "http://x.fr](y"),
         ("tld-tail", "see http://a.", " ok"), ("markdown-bare-target", "[http://a.fr/](http://b.fr", ") z"),
         ("markdown-text-host", "[http://a", "](b@c.fr) z"), ("tld-tail-3", "see http://aa.bb.", " ok")]
BOUNDS = {
    "quick": "is_url: 12 url skeletons x hole strings of length 0..2 over all code points x ALL 16 option combinations (symbolic booleans); outer whitespace of length 0..1 on each side; "
             "urls_from_text: 14 text skeletons (plain, punctuated, markdown complete / truncated / url-as-text / target without path, typographic quotes, adjacent urls, hole at the end of the host, free) x holes of length 0..2",
    "thorough": "holes of length 0..3",
}
STUBS = ["the five live URL regexes run through the sre-tree matcher (bounded strings; no length-unbounded regex lemma was built)", "live TLD set as a disjunction"]
TRUSTED = ["spec/c16.py (own copy of the special-host pattern; bundled TLD list)", "pysx engine", "z3"]
ASSUMPTIONS = ["punycode TLD labels (xn--) are outside the TLD clause (idna codec is C code)", "the order of the two halves of one markdown link is not constrained"]


def _opts(st):
    return tuple(st.bool_var("o%d" % i) for i in range(4))


def isurl(st, skel, n):
    name, pre, post = URLS[skel]
    s = cat(pre, sym_str(st, "s", n), post)
    o = _opts(st)
    run_prop(st, "monotone", S.monotone, s, o)
    run_prop(st, "tld_aware_means_known_tld", S.tld_aware_means_known_tld, s, o)


def ws(st, skel, n, a, b):
    name, pre, post = URLS[skel]
    s = cat(pre, sym_str(st, "s", n), post)
    w1 = sym_str(st, "w", a)
    w2 = sym_str(st, "v", b)
    st.assume(z_and([C.str_pred_set("isspace").cond(c) for c in elems(w1) + elems(w2)]), "whitespace")
    o = _opts(st)
    run_prop(st, "ignores_outer_whitespace", S.ignores_outer_whitespace, s, w1, w2, o)


def text(st, skel, n):
    name, pre, post = TEXTS[skel]
    t = cat(pre, sym_str(st, "s", n), post)
    run_prop(st, "extracted_urls_are_genuine", S.extracted_urls_are_genuine, t)


def items(tier):
    quick = tier == "quick"
    nmax = 2 if quick else 3
    out = []
    for i in range(len(URLS)):
        for n in range(0, nmax + 1):
            it = {"fn": "isurl", "params": {"skel": i, "n": n}, "name": "is_url %s n=%d" % (URLS[i][0], n), "weight": 16 * 8 ** n}
            if n >= 1:
                it["defer_depth"] = 8
            out.append(it)
        for (a, b) in ((1, 0), (0, 1), (1, 1)):
            out.append({"fn": "ws", "params": {"skel": i, "n": 1 if quick else 2, "a": a, "b": b}, "name": "whitespace %s %d/%d" % (URLS[i][0], a, b), "weight": 200, "defer_depth": 8})
    for i in range(len(TEXTS)):
        for n in range(0, nmax + 1):
            it = {"fn": "text", "params": {"skel": i, "n": n}, "name": "text %s n=%d" % (TEXTS[i][0], n), "weight": 10 ** n}
            if n >= 2:
                it["defer_depth"] = 8
            out.append(it)
    return out
