"""C03: the three deduplication schemes form a hierarchy (composition equalities)."""
from pysx.api import sym_str, sym_tokens, cat, HEXDOM
from pysx.harness import run_prop
from spec import c03 as S
from checks.nskel import SKELETONS, LONG

BOUNDS = {
    "quick": "24 URL skeletons x every hole string of length 0..1 (0..2 for the query-escape, redirect and the two path holes after a '%') over all code points (hex digits only for the two holes that follow a '%' in the path) x quoted / strip_suffix in {F,T}; platform_aware=False",
    "thorough": "holes of length 0..2 (3 for path / query / fragment / redirect holes)",
}
STUBS = ["see C01 (urlsplit etc. interpreted; UTF-8 / quote / table models; exact model of urlsplit's NFKC check; idna cut)"]
TRUSTED = ["pysx engine", "z3 (relational: no oracle)"]
ASSUMPTIONS = ["inputs on which a function raises are skipped here (never-raises is C05)", "platform_aware=True not covered by this check",
               "the pair form 'same normalized => same fingerprint' is decided as fingerprint(normalize(u, strip_protocol=False)) == fingerprint(u)"]


# skeletons of this check only: an escape that is a whole path segment (an escaped dot segment)
SKELS = list(SKELETONS) + [("path-escape-seg", "http://x.fr/a/%", "/b"), ("query-escape-redirect-key", "http://a.fr/?%", "rl=http://b.fr/x"),
                           ("empty-segment-dotdot", "http://x.fr/a//", "./b")]


def hier(st, skel, n, flag):
    name, pre, post = SKELS[skel]
    # right after a '%' the interesting fillers are hex digits: restrict the hole to them (stated in BOUNDS)
    u = cat(pre, sym_str(st, "s", n, HEXDOM if name.startswith(("path-escape", "fragment-escape", "query-escape-redirect")) else None), post)
    run_prop(st, "normalize_after_canonicalize", S.normalize_after_canonicalize, u, flag, False)
    run_prop(st, "fingerprint_after_canonicalize", S.fingerprint_after_canonicalize, u, flag, False)
    run_prop(st, "fingerprint_after_normalize", S.fingerprint_after_normalize, u, flag, False)


def qorder(st, k1, k2, flag):
    """two query items whose keys are token-shaped holes (a code point, an escape, a 2-byte escaped UTF-8 sequence):
    the items' order after unquoting / lower-casing is what the three schemes must agree on"""
    u = cat("http://x.fr/?", sym_tokens(st, "k", k1), "=1&", sym_tokens(st, "m", k2), "=2")
    run_prop(st, "normalize_after_canonicalize", S.normalize_after_canonicalize, u, flag, False)
    run_prop(st, "fingerprint_after_canonicalize", S.fingerprint_after_canonicalize, u, flag, False)
    run_prop(st, "fingerprint_after_normalize", S.fingerprint_after_normalize, u, flag, False)


QORDER_QUICK = ()
QORDER_ALL = (("%C3e", "c"), ("E", "c"), ("c", "E"), ("c", "c"))

N2 = ("path-escape-index", "path-escape-amp", "query-escape", "redirect", "no-scheme-port", "fragment-escape", "no-scheme-redirect", "path-escape-seg", "query-escape-redirect-key")


def items(tier):
    quick = tier == "quick"
    out = []
    for i, (name, pre, post) in enumerate(SKELS):
        if quick:
            nmax = 2 if name in N2 else 1
        else:
            nmax = 3 if name in LONG else 2
        for n in range(0, nmax + 1):
            for flag in (False, True):
                if quick and n >= 1 and flag != (i % 2 == 0):
                    continue
                it = {"fn": "hier", "params": {"skel": i, "n": n, "flag": flag}, "name": "%s n=%d flag=%s" % (name, n, flag), "weight": 8 ** n}
                if n >= 2:
                    it["defer_depth"] = 8 if n == 2 else 12
                out.append(it)
    for k1, k2 in (QORDER_QUICK if quick else QORDER_ALL):
        for flag in ((False,) if quick else (False, True)):
            out.append({"fn": "qorder", "params": {"k1": k1, "k2": k2, "flag": flag}, "name": "query-order %s,%s flag=%s" % (k1, k2, flag),
                        "weight": 64, "defer_depth": 8})
    return out
