"""C08: SuffixTrie vs the PSL algorithm, on arbitrary small rule sets and on the bundled list."""
import itertools
from pysx.api import sym_str, cat
from pysx.harness import run_prop
from pysx.values import elems, mk
from spec import c08 as S

ABC = [(0x61, 0x63)]
LABEL = [(0x61, 0x7A), (0x30, 0x39)]
BOUNDS = {
    "quick": "(b) every rule set of <= 2 rules (3 rules when short) of the shapes L, L.L, L.L.L, *.L, *.L.L, !L.L, !L.L.L (L = a symbolic label in {a,b,c}) x every hostname of depth 1..4 over {a,b,c}; "
             "(a) bundled list: 45 rule families (plain 1-3 labels, wildcard with and without explicit children, exception rules, private suffixes, hosts that start like 'localhost' / an IPv4 address) with 1-2 symbolic labels [a-z0-9]{1,2} placed in front of / inside the rule; "
             "(c) surface claims on 8 host skeletons with holes of length 0..2",
    "thorough": "rule sets of <= 4 rules; symbolic labels of up to 3 characters",
}
STUBS = ["SymDict for trie children; live SUFFIX_TRIE walked symbolically (lookups fork over same-length entries)"]
TRUSTED = ["spec/c08.py ref_suffix_length (publicsuffix.org algorithm, 25 lines)", "pysx engine", "z3"]
ASSUMPTIONS = ["the bundled list is exercised on selected rule families with symbolic extra labels, not on all 9,950 rules", "punycode labels outside", "labels are [a-z0-9]"]
SHAPES = ["L", "L.L", "L.L.L", "*.L", "*.L.L", "!L.L", "!L.L.L"]


def _inst(st, shape, name):
    out = []
    k = 0
    for ch in shape:
        if ch == "L":
            out.append(sym_str(st, "%s_%d" % (name, k), 1, ABC))
            k += 1
        else:
            out.append(ch)
    return cat(*out)


def ruleset(st, shapes, depth):
    rules = [_inst(st, SHAPES[s], "r%d" % i) for i, s in enumerate(shapes)]
    host = cat(*[x for i in range(depth) for x in ((["."] if i else []) + [sym_str(st, "h_%d" % i, 1, ABC)])])
    run_prop(st, "trie_follows_psl", S.trie_follows_psl, rules, host)


# bundled families: (host template with {} = symbolic label(s))
BUNDLED = [
    "{}.com", "{}.{}.com", "{}.co.uk", "www.{}.co.uk", "{}.uk", "{}.fr", "{}.{}.fr", "{}.github.io", "a.{}.github.io", "{}.blogspot.com",
    "{}.ck", "www.ck", "{}.www.ck", "a.{}.ck", "ck", "{}.kobe.jp", "city.kobe.jp", "{}.city.kobe.jp", "kobe.jp", "a.{}.kobe.jp",
    "{}.firenet.ch", "svc.firenet.ch", "{}.svc.firenet.ch", "a.{}.svc.firenet.ch", "firenet.ch", "{}.futurecms.at", "in.futurecms.at", "{}.in.futurecms.at",
    "{}.customer-oci.com", "oci.customer-oci.com", "{}.oci.customer-oci.com", "{}.snowflake.app", "privatelink.snowflake.app", "{}.privatelink.snowflake.app",
    "{}.k12.ak.us", "{}.pvt.k12.ma.us", "{}.compute.amazonaws.com", "{}.jp", "{}.nom.br", "{}.zzunknowntld",
    # hostnames that merely start like a special host (localhost, an IPv4 address) are ordinary hostnames
    "localhost{}.com", "localhost.{}.fr", "localhost.daplie.me", "1.2.3.4.{}.com", "10.0.0.1{}.fr",
]


def bundled(st, i, n):
    tpl = BUNDLED[i]
    parts = tpl.split("{}")
    pieces = []
    for j, p in enumerate(parts):
        pieces.append(p)
        if j < len(parts) - 1:
            pieces.append(sym_str(st, "l%d" % j, n, LABEL))
    host = cat(*pieces)
    run_prop(st, "bundled_list_follows_psl", S.bundled_list_follows_psl, host)


SURFACE = [("", ".co.uk"), ("www.", ".fr"), ("a.b.", ".com"), ("x.", ""), ("", ".kobe.jp"), ("svc.", ".ch"), ("", ""), ("WWW.Lemonde.", ".")]


def surface(st, i, n, form):
    pre, post = SURFACE[i]
    host = cat(pre, sym_str(st, "s", n, LABEL + [(0x41, 0x5A), (0x2E, 0x2E), (0x2D, 0x2D)]), post)
    up, upost = [("", ""), ("http://", "/p?q"), ("https://u@", ":8080/"), ("//", "#f")][form]
    run_prop(st, "surface_claims", S.surface_claims, host, up, upost)


def items(tier):
    quick = tier == "quick"
    out = []
    kmax = 3 if quick else 4
    for k in range(1, kmax + 1):
        for shapes in itertools.combinations_with_replacement(range(len(SHAPES)), k):
            if k >= 3 and quick and sum(len(SHAPES[s]) for s in shapes) > 7:
                continue
            if k == 4 and sum(len(SHAPES[s]) for s in shapes) > 14:
                continue
            for depth in range(1, 5):
                it = {"fn": "ruleset", "params": {"shapes": list(shapes), "depth": depth}, "name": "rules %s depth=%d" % ([SHAPES[s] for s in shapes], depth), "weight": 3 ** (k + depth)}
                if k >= 3:
                    it["defer_depth"] = 10
                out.append(it)
    for i in range(len(BUNDLED)):
        for n in ((1, 2) if quick else (1, 2, 3)):
            if BUNDLED[i].count("{}") == 0 and n > 1:
                continue
            out.append({"fn": "bundled", "params": {"i": i, "n": n}, "name": "bundled %s n=%d" % (BUNDLED[i], n), "weight": 30 ** n})
    for i in range(len(SURFACE)):
        for n in range(0, (2 if quick else 3) + 1):
            out.append({"fn": "surface", "params": {"i": i, "n": n, "form": (i + n) % 4}, "name": "surface %d n=%d" % (i, n), "weight": 30 ** n})
    return out
