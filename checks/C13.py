"""C13: ordering law between the LRUs of two URLs, both directions."""
from pysx.api import sym_str, cat
from pysx.harness import run_prop
from pysx.values import elems, z_and, z_or, z_not, ceq
from pysx import chars as C
from spec import c13 as S
from checks.C02 import _WS_CTRL

BOUNDS = {
    "quick": "forward: 12 ancestor/descendant constructions (path extension, subdomain extension under 1-label / 2-label / private suffixes, a second subdomain level, under a bare suffix with a port, query+fragment extension) with two symbolic holes of length 0..2 (segment / label characters); "
             "converse: 7 pair skeletons (look-alike hosts such as 'lemonde.fr' vs 'lemonde.fr.<hole>', suffix boundaries, path boundaries, ports, schemes) with holes of length 0..2 over all code points; suffix_aware in {F,T}",
    "thorough": "holes of length 0..3",
}
STUBS = ["see C01 / C12"]
TRUSTED = ["spec/c13.py lies_under (reference hierarchy predicate on the standard parser's components)", "pysx engine", "z3"]
ASSUMPTIONS = ["forward direction: the ancestor has no query / fragment / userinfo and holes hold segment (resp. label) characters only", "'|' excluded", "urls the parser rejects are skipped"]
SEG_BAD = "/?#|%\\"
LAB_BAD = "/?#|.:@[]%\\"


def _chars_ok(st, he, bad):
    st.assume(z_and([z_not(_WS_CTRL.cond(c)) for c in he]), "no whitespace / control")
    st.assume(z_and([z_not(z_or([ceq(c, ord(x)) for x in bad])) for c in he]), "no %r" % bad)


def forward(st, kind, n, m, suffix_aware):
    h = sym_str(st, "s", n)
    g = sym_str(st, "t", m)
    he, ge = elems(h), elems(g)
    if kind == "path":
        _chars_ok(st, he, SEG_BAD)
        _chars_ok(st, ge, SEG_BAD)
        u = cat("http://www.x.fr:8080/a/b", h)
        v = cat("http://www.x.fr:8080/a/b", h, "/c", g, "?q=1#f")
    elif kind == "path-slash":
        _chars_ok(st, he, SEG_BAD)
        _chars_ok(st, ge, SEG_BAD)
        u = cat("https://x.fr/a", h, "/")
        v = cat("https://x.fr/a", h, "/", g, "/")
    elif kind in ("sub-fr", "sub-couk", "sub-github"):
        suf = {"sub-fr": "fr", "sub-couk": "co.uk", "sub-github": "github.io"}[kind]
        _chars_ok(st, he, LAB_BAD)
        _chars_ok(st, ge, LAB_BAD)
        st.assume(len(ge) > 0, "non-empty label")
        u = cat("http://x", h, ".", suf)
        v = cat("http://", g, ".x", h, ".", suf, "/p")
    elif kind in ("sub2-fr", "sub2-couk"):
        # the ancestor already has a label below the registered domain: two and three labels on the descendant's side
        suf = {"sub2-fr": "fr", "sub2-couk": "co.uk"}[kind]
        _chars_ok(st, he, LAB_BAD)
        _chars_ok(st, ge, LAB_BAD)
        st.assume(len(ge) > 0, "non-empty label")
        u = cat("http://www.x", h, ".", suf)
        v = cat("http://", g, ".www.x", h, ".", suf, "/p")
    elif kind in ("inside-suffix", "inside-private-suffix"):
        # the ancestor's host is only a part of the descendant's public suffix
        _chars_ok(st, he, LAB_BAD)
        _chars_ok(st, ge, LAB_BAD)
        st.assume(len(ge) > 0, "non-empty label")
        if kind == "inside-suffix":
            u, v = cat("http://uk"), cat("http://", g, ".x", h, ".co.uk/p")
        else:
            u, v = cat("http://fedoraproject.org"), cat("http://", g, ".cloud.fedoraproject.org/p", h)
    elif kind in ("bare-suffix-port", "bare-tld-port"):
        suf = {"bare-suffix-port": "co.uk", "bare-tld-port": "fr"}[kind]
        _chars_ok(st, he, LAB_BAD)
        _chars_ok(st, ge, LAB_BAD)
        st.assume(len(ge) > 0, "non-empty label")
        u = cat("http://", suf, ":8080")
        v = cat("http://", g, ".x", h, ".", suf, ":8080/p")
    elif kind == "query":
        _chars_ok(st, he, SEG_BAD)
        _chars_ok(st, ge, "#|")
        u = cat("http://x.fr/a", h)
        v = cat("http://x.fr/a", h, "?", g, "#", g)
    else:
        raise ValueError(kind)
    run_prop(st, "descendant_has_prefix/" + kind, S.descendant_has_prefix, u, v, suffix_aware)


PAIRS = [
    ("lookalike-host", ("http://lemonde.fr", ""), ("http://lemonde.fr", "/a")),
    ("lookalike-prefix", ("http://lemonde.fr/", ""), ("http://", "lemonde.fr/a")),
    ("suffix-boundary", ("http://co", ".uk"), ("http://a.co", ".uk/p")),
    ("suffix-vs-domain", ("http://", ".co.uk"), ("http://x.", "co.uk/p")),
    ("path-boundary", ("http://x.fr/ab", ""), ("http://x.fr/ab", "/c")),
    ("port", ("http://x.fr:80", ""), ("http://x.fr:80", "/p")),
    ("scheme", ("http", "://x.fr/a"), ("http", "://x.fr/a/b")),
]


def converse(st, pair, n, m, suffix_aware):
    name, (p1, q1), (p2, q2) = PAIRS[pair]
    h = sym_str(st, "s", n)
    g = sym_str(st, "t", m)
    st.assume(z_and([z_not(ceq(c, 124)) for c in elems(h) + elems(g)]), "no |")
    u = cat(p1, h, q1)
    v = cat(p2, g, q2)
    run_prop(st, "prefix_implies_descendant/" + name, S.prefix_implies_descendant, u, v, suffix_aware)


def items(tier):
    quick = tier == "quick"
    nmax = 2 if quick else 3
    out = []
    for kind in ("path", "path-slash", "sub-fr", "sub-couk", "sub-github", "sub2-fr", "sub2-couk", "inside-suffix", "inside-private-suffix", "bare-suffix-port", "bare-tld-port", "query"):
        for n in range(0, nmax + 1):
            for m in range(0, nmax + 1):
                if quick and n + m > 3:
                    continue
                for sa in (False, True):
                    it = {"fn": "forward", "params": {"kind": kind, "n": n, "m": m, "suffix_aware": sa}, "name": "fwd %s %d+%d sa=%s" % (kind, n, m, sa), "weight": 4 ** (n + m)}
                    if n + m >= 3:
                        it["defer_depth"] = 8
                    out.append(it)
    for p in range(len(PAIRS)):
        for n in range(0, nmax + 1):
            for m in range(0, nmax + 1):
                if quick and n + m > 3:
                    continue
                for sa in (False, True):
                    if quick and n + m == 3 and sa != (p % 2 == 0):
                        continue
                    it = {"fn": "converse", "params": {"pair": p, "n": n, "m": m, "suffix_aware": sa}, "name": "conv %s %d+%d sa=%s" % (PAIRS[p][0], n, m, sa), "weight": 8 ** (n + m)}
                    if n + m >= 2:
                        it["defer_depth"] = 8
                    out.append(it)
    return out
