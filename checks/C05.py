"""C05: normalize_url never raises / only deletes / honours options."""
from pysx.api import sym_str, cat
from pysx.harness import run_prop
from spec import c05 as S
from checks.nskel import SKELETONS, LONG

BOUNDS = {
    "quick": "never-raises / unparseable-unchanged with ALL 12 options symbolic (strip_fragment in {True, False, 'except-routing'}) on every str of length 0..1 and on every third skeleton itself; "
             "with default options on every str of length 0..3 and skeleton holes of length 0..2; "
             "deletion-only (host labels, port, query items) and option-off preservation (protocol, authentication, fragment, subdomains) on the skeletons with holes of length 0..2, host holes of length 0..3",
    "thorough": "all options symbolic: str of length 0..2, skeleton holes 0..1; default options: str 0..4, holes 0..3; other obligations holes 0..3 (hosts 0..4)",
}
STUBS = ["see C01"]
TRUSTED = ["spec/c05.py reference predicates (label subsequence, item subset), spec/url.py", "pysx engine", "z3"]
ASSUMPTIONS = ["punycode decoding of symbolic labels not covered (xn-- labels cut)", "deletion-only is decided with infer_redirection=False (C04 decides that inference is a pre-step)",
               "path deletion rules (index page / AMP suffix) are covered relationally by C04, not by a reference predicate here"]


def _opts(st):
    o = []
    for name in S.OPTS:
        if name == "strip_fragment":
            b1, b2 = st.bool_var("o_sf1"), st.bool_var("o_sf2")
            o.append(True if st.branch(b1) else (False if st.branch(b2) else "except-routing"))
        else:
            o.append(st.bool_var("o_" + name))
    return tuple(o)


def total_free(st, n):
    u = sym_str(st, "s", n)
    o = _opts(st)
    run_prop(st, "never_raises", S.never_raises, u, o)


def total_skel(st, skel, n):
    name, pre, post = SKELETONS[skel]
    u = cat(pre, sym_str(st, "s", n), post)
    o = _opts(st)
    run_prop(st, "never_raises", S.never_raises, u, o)
    o2 = tuple(False if nm == "infer_redirection" else v for nm, v in zip(S.OPTS, o))
    run_prop(st, "unparseable_returned_unchanged", S.unparseable_returned_unchanged, u, o2)


def deletion(st, skel, n, flag):
    name, pre, post = SKELETONS[skel]
    u = cat(pre, sym_str(st, "s", n), post)
    run_prop(st, "host_only_loses_whole_irrelevant_labels", S.host_only_loses_whole_irrelevant_labels, u, True, flag)
    run_prop(st, "non_default_port_kept", S.non_default_port_kept, u)
    run_prop(st, "query_items_are_a_subset", S.query_items_are_a_subset, u, flag)
    run_prop(st, "protocol_kept_when_asked", S.protocol_kept_when_asked, u)
    run_prop(st, "authentication_kept_when_asked", S.authentication_kept_when_asked, u)
    run_prop(st, "fragment_kept_when_asked", S.fragment_kept_when_asked, u)
    run_prop(st, "subdomains_kept_when_asked", S.subdomains_kept_when_asked, u)
    run_prop(st, "amp_items_kept_when_asked", S.amp_items_kept_when_asked, u)
    run_prop(st, "query_items_are_a_subset_with_repair", S.query_items_are_a_subset_with_repair, u)


QUERIES = [("amp-item", "http://x.fr/p?amp=1&", "=2&id=7"), ("amp-key", "http://x.fr/p?a=1&amp", "=2"), ("amp-entity", "http://x.fr/p?q=1&amp", "b=2&ampere=3"),
           # the text '&amp;' written with an escaped ampersand is data of the value, not a broken separator
           ("amp-entity-escaped", "http://x.fr/p?t=Tom%26amp", "Jerry&l=en")]


def queries(st, i, n, flag):
    name, pre, post = QUERIES[i]
    u = cat(pre, sym_str(st, "s", n), post)
    run_prop(st, "query_items_are_a_subset", S.query_items_are_a_subset, u, flag)
    run_prop(st, "amp_items_kept_when_asked", S.amp_items_kept_when_asked, u)
    run_prop(st, "query_items_are_a_subset_with_repair", S.query_items_are_a_subset_with_repair, u)


HOSTS = [("host-hyphen", "http://forum", ".example.com/"), ("host-label", "http://a.", "x.fr/p"), ("host-amp", "https://amp", "x.fr/")]


def hosts(st, i, n, flag):
    name, pre, post = HOSTS[i]
    u = cat(pre, sym_str(st, "s", n), post)
    # first: its default call must be the first one that sees this host on the path (module-level state)
    run_prop(st, "amp_label_kept_after_default_call", S.amp_label_kept_after_default_call, u)
    run_prop(st, "host_only_loses_whole_irrelevant_labels", S.host_only_loses_whole_irrelevant_labels, u, True, flag)
    run_prop(st, "subdomains_kept_when_asked", S.subdomains_kept_when_asked, u)


def total_default(st, skel, n):
    if skel is None:
        u = sym_str(st, "s", n)
    else:
        name, pre, post = SKELETONS[skel]
        u = cat(pre, sym_str(st, "s", n), post)
    o = tuple({"strip_fragment": "except-routing", "quoted": False, "platform_aware": False}.get(nm, True) for nm in S.OPTS)
    run_prop(st, "never_raises", S.never_raises, u, o)
    o2 = tuple(False if nm == "infer_redirection" else v for nm, v in zip(S.OPTS, o))
    run_prop(st, "unparseable_returned_unchanged", S.unparseable_returned_unchanged, u, o2)


def items(tier):
    quick = tier == "quick"
    out = []
    # every option symbolic (~100 option paths per string path): short strings only
    for n in range(0, (1 if quick else 2) + 1):
        it = {"fn": "total_free", "params": {"n": n}, "name": "never-raises all-options free n=%d" % n, "weight": 100 * 10 ** n, "defer_depth": 10}
        out.append(it)
    for i in range(len(SKELETONS)):
        if quick and i % 3 != 0:
            continue
        for n in range(0, (0 if quick else 1) + 1):
            it = {"fn": "total_skel", "params": {"skel": i, "n": n}, "name": "never-raises all-options %s n=%d" % (SKELETONS[i][0], n), "weight": 100 * 10 ** n, "defer_depth": 10}
            out.append(it)
    # default options: longer strings
    for n in range(0, (3 if quick else 4) + 1):
        it = {"fn": "total_default", "params": {"skel": None, "n": n}, "name": "never-raises default free n=%d" % n, "weight": 8 ** n}
        if n >= 3:
            it["defer_depth"] = 10
        out.append(it)
    for i in range(len(SKELETONS)):
        for n in range(0, (2 if quick else 3) + 1):
            it = {"fn": "total_default", "params": {"skel": i, "n": n}, "name": "never-raises default %s n=%d" % (SKELETONS[i][0], n), "weight": 8 ** n}
            if n >= 2:
                it["defer_depth"] = 8
            out.append(it)
        for n in range(0, ((2 if SKELETONS[i][0] in ("host-prefix", "query-item", "query-key") else 1) if quick else 3) + 1):
            flag = bool((n + i) % 2)
            it = {"fn": "deletion", "params": {"skel": i, "n": n, "flag": flag}, "name": "deletion %s n=%d" % (SKELETONS[i][0], n), "weight": 8 ** n}
            if n >= 2:
                it["defer_depth"] = 8
            out.append(it)
    for i in range(len(QUERIES)):
        for n in range(0, (2 if quick else 3) + 1):
            it = {"fn": "queries", "params": {"i": i, "n": n, "flag": bool(n % 2)}, "name": "%s n=%d" % (QUERIES[i][0], n), "weight": 8 ** n}
            if n >= 2:
                it["defer_depth"] = 8
            out.append(it)
    for i in range(len(HOSTS)):
        for n in range(0, (3 if quick else 4) + 1):
            it = {"fn": "hosts", "params": {"i": i, "n": n, "flag": bool(n % 2)}, "name": "%s n=%d" % (HOSTS[i][0], n), "weight": 8 ** n}
            if n >= 2:
                it["defer_depth"] = 8
            out.append(it)
    return out
