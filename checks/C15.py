"""C15: termination / fixed point / embedded target of infer_redirection."""
from pysx.api import sym_str, sym_tokens, cat
from pysx.harness import run_prop
from spec import c15 as S

SKELETONS = [
    ("free", "http://", ""),
    ("query-u", "http://x.fr/?u=", ""),
    ("query-url", "http://x.fr/r?a=1&url=", "&next=/a"),
    ("before-path", "http://", "?u=/"),
    ("userinfo", "http://&u=", "@x.fr/"),
    ("host-position", "http://&url=", "/"),
    ("path-position", "http://x.fr/&redirect=", ""),
    ("fragment", "http://x.fr/p#!&goto=", ""),
    ("nested", "http://x.fr/?u=%2F%3Fu%3D", ""),
    ("nested-abs", "http://x.fr/?url=http%3A%2F%2Fy.fr%2F%3Fl%3D", "&z=1"),
    ("self", "http://x.fr/?u=/?u=", ""),
    ("amp-cache", "https://x-fr.cdn.ampproject.org/c/s/", ""),
    ("marfeel", "http://bc.marfeel.com/", "?u=/a"),
    ("youtube", "https://www.youtube.com/redirect?q=", "&v=1"),
    ("q-google", "https://www.google.com/url?q=", ""),
    ("lookalike-key", "http://x.fr/?curl=", "&u"),
    ("nested-amp", "http://x.fr/?url=http%3A%2F%2Fy.fr%2Fgo%26u%3D", "&z=1"),
    ("nested-path", "https://l.x.fr/l.php?next=%2Fr%26goto%3D", ""),
    ("path-key", "http://x.fr/r/url=", ""),
    ("hyphen-key", "http://x.fr/?short-url=", "&z"),
    ("fragment-key", "http://x.fr/r#next=", ""),
    ("growth", "http://x.fr/r?u=//%23", ""),
    ("growth-query", "http://x.fr/r?u=/", "%3Fu%3D/"),
    ("no-scheme-key", "", "u=/a"),
    ("no-scheme-host-key", "x.fr&url=/", ""),
    ("nested-amp-cache", "http://x.fr/?u=https%3A%2F%2Fy-fr.cdn.ampproject.org%2Fc%2Fs%2Fy.fr%2F", "&h=1"),
]
BOUNDS = {
    "quick": "26 redirect skeletons (redirect keys in query, before the path, in userinfo / host / path / fragment position, nested 2 levels with matching escaping, self-referential, AMP and Marfeel caches, youtube, google, look-alike key) x every hole string of length 0..2 (0..3 for the free, query, before-path, nested, self, amp-cache and google skeletons) over all code points; recursive and single-step",
    "thorough": "holes of length 0..3 (0..4 for the skeletons listed above, free: 0..5)",
}
STUBS = ["stdlib urllib.parse.unquote and urljoin interpreted from source", "RecursionError modelled at interpreted call depth 48; a counterexample is only reported when the native call raises RecursionError too"]
TRUSTED = ["spec/c15.py (own copy of the documented redirect-key list and cache patterns)", "pysx engine", "z3"]
ASSUMPTIONS = ["wall-clock per call is not a solver question: termination is decided as 'no RecursionError and no while loop beyond 3000 iterations' on every path within the bound (pysx.lib.bounded_call; natively: 400000 traced steps)",
               "chains of more than 12 inference steps are outside recursive_equals_iterated_step"]


def red(st, skel, n):
    name, pre, post = SKELETONS[skel]
    u = cat(pre, sym_str(st, "s", n), post)
    run_prop(st, "terminates", S.terminates, u)
    run_prop(st, "result_is_a_fixed_point", S.result_is_a_fixed_point, u)
    run_prop(st, "recursive_equals_iterated_step", S.recursive_equals_iterated_step, u)
    run_prop(st, "step_returns_input_or_embedded_target", S.step_returns_input_or_embedded_target, u)


N3 = ("free", "query-u", "self")


def items(tier):
    quick = tier == "quick"
    out = []
    for i, (name, pre, post) in enumerate(SKELETONS):
        if quick:
            nmax = 3 if name in N3 else 2
        else:
            nmax = (5 if name == "free" else 4) if name in N3 else 3
        for n in range(0, nmax + 1):
            it = {"fn": "red", "params": {"skel": i, "n": n}, "name": "%s n=%d" % (name, n), "weight": 8 ** n}
            if n >= 2:
                it["defer_depth"] = 8 if n == 2 else 12
            out.append(it)
    return out
