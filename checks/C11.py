"""C11: LRU tries (longest stored prefix), url API vs stems API, variant tries."""
import itertools
from pysx.api import sym_str, cat
from pysx.harness import run_prop
from pysx.values import elems, mk, z_and, z_not, z_or, ceq
from spec import c11 as S
from checks.C02 import _WS_CTRL

BOUNDS = {
    "quick": "stems API: every history of <= 3 set_lru of stem lists of length 0..3 (stems = tag + one symbolic character, tags s/h/p/q incl. the empty path stem 'p:') then match_lru on a stem list of length 0..3, lists and serialized strings; "
             "url API == stems API: 4 trie classes x 2 stored urls + 1 query drawn from 5 url skeletons with a symbolic hole of length 0..1, suffix_aware in {F,T}; "
             "variant tries: same-image pairs from 8 transformation pairs with a hole of length 0..2",
    "thorough": "histories of <= 4 set_lru; url holes of length 0..2; transformation holes 0..3",
}
STUBS = ["see C01 / C10 (SymDict)"]
TRUSTED = ["spec/c11.py reference (longest stored prefix, last write wins)", "pysx engine", "z3"]
ASSUMPTIONS = ["stem characters exclude '|' (serialized form)", "longer histories outside the claim"]
TAGS = ["s:", "h:", "p:", "q:"]


def _stem(st, name, tag, empty):
    if empty:
        return tag
    c = sym_str(st, name, 1, [(0x30, 0x39), (0x61, 0x7A)])
    return cat(tag, c)


def stems_api(st, shapes, qshape, as_string):
    """shapes: list of lists of (tag index, empty?)"""
    lists = []
    for i, sh in enumerate(shapes):
        lists.append([_stem(st, "k%d_%d" % (i, j), TAGS[t], e) for j, (t, e) in enumerate(sh)])
    q = [_stem(st, "q_%d" % j, TAGS[t], e) for j, (t, e) in enumerate(qshape)]
    run_prop(st, "stems_api", S.stems_api_matches_reference, lists, q, as_string)


URLS = [("http://x.fr/", ""), ("http://x.fr/a/", "/b"), ("https://www.x.co.uk/", "?q=1"), ("x.fr:8080/a", ""), ("http://a.", ".fr/p/")]


def url_api(st, kind, i, j, k, n, suffix_aware):
    hs = sym_str(st, "s", n)
    st.assume(z_and([z_not(ceq(c, 124)) for c in elems(hs)]), "no |")
    us = []
    for idx in (i, j, k):
        pre, post = URLS[idx]
        us.append(cat(pre, hs, post))
    run_prop(st, "url_api/" + kind, S.url_api_equals_stems_api, kind, us[:2], us[2], suffix_aware)


PAIRS = [
    ("canonicalized", "http://x.fr/a{}", "HTTP://X.FR:80/a{}"),
    ("canonicalized", "http://x.fr/{}", "http://x.fr/./{}"),
    ("normalized", "http://x.fr/a{}", "https://www.x.fr/a{}/"),
    ("normalized", "http://x.fr/p?a=1&b={}", "http://x.fr/p?b={}&utm_source=z&a=1"),
    ("normalized", "http://x.fr/{}", "http://m.x.fr/{}#top"),
    ("fingerprinted", "http://x.fr/a{}", "HTTPS://FR.X.FR:8080/A{}"),
    ("fingerprinted", "http://x.fr/p?a={}", "http://x.fr/p?hl=fr&a={}"),
    ("fingerprinted", "http://www.x.fr/{}", "http://x.fr/{}"),
]


def variant(st, p, n, suffix_aware):
    kind, a, b = PAIRS[p]
    h = sym_str(st, "s", n)
    st.assume(z_and([z_not(ceq(c, 124)) for c in elems(h)]), "no |")
    u = cat(*[x for part in a.split("{}") for x in (part, h)][:-1])
    v = cat(*[x for part in b.split("{}") for x in (part, h)][:-1])
    run_prop(st, "same_image_is_same_key/" + kind, S.same_image_is_same_key, kind, u, v, suffix_aware)


TOK = [("http://www.example.co.uk/a", ""), ("https://blog.", ".co.uk:8080/p?q"), ("HTTP://FR.X.com.au/", "#f")]


def tokenization(st, kind, i, n, suffix_aware):
    pre, post = TOK[i]
    h = sym_str(st, "s", n)
    st.assume(z_and([z_not(ceq(c, 124)) for c in elems(h)]), "no |")
    run_prop(st, "variant_tokenization/" + kind, S.variant_tokenization, kind, cat(pre, h, post), suffix_aware)


def _shapes(maxlen):
    # stem list shapes: tags in hierarchical order s, h*, p*, q ; 'p:' may be empty
    base = [(0, False), (1, False), (1, False), (2, False), (2, True), (3, False)]
    out = [[]]
    for L in range(1, maxlen + 1):
        for comb in itertools.combinations(range(len(base)), L):
            out.append([base[i] for i in comb])
    return out


def items(tier):
    quick = tier == "quick"
    out = []
    shapes = _shapes(3)
    sel = shapes[:: (3 if quick else 1)]
    kmax = 3 if quick else 4
    import random
    rnd = random.Random(7)
    for k in range(0, kmax + 1):
        combos = list(itertools.product(range(len(sel)), repeat=k))
        if len(combos) > (30 if quick else 400):
            combos = rnd.sample(combos, 30 if quick else 400)
        for combo in combos:
            qs = rnd.sample(range(len(shapes)), 2)
            for qi in qs:
                out.append({"fn": "stems_api", "params": {"shapes": [sel[c] for c in combo], "qshape": shapes[qi], "as_string": bool((qi + k) % 2)},
                            "name": "stems k=%d" % k, "weight": 3 ** (k + 1)})
    for kind in S.CLASSES:
        for (i, j, k) in ((0, 1, 1), (1, 0, 1), (2, 2, 2), (3, 0, 3), (4, 4, 1)):
            for n in range(0, (1 if quick else 2) + 1):
                sa = bool((i + n) % 2)
                out.append({"fn": "url_api", "params": {"kind": kind, "i": i, "j": j, "k": k, "n": n, "suffix_aware": sa},
                            "name": "url_api %s %d%d%d n=%d" % (kind, i, j, k, n), "weight": 20 ** (n + 1)})
    for kind in ("canonicalized", "normalized", "fingerprinted"):
        for i in range(len(TOK)):
            for n in range(0, (1 if quick else 2) + 1):
                for sa in (False, True):
                    out.append({"fn": "tokenization", "params": {"kind": kind, "i": i, "n": n, "suffix_aware": sa}, "name": "tokenization %s %d n=%d sa=%s" % (kind, i, n, sa), "weight": 10 ** n})
    for p in range(len(PAIRS)):
        for n in range(0, (2 if quick else 3) + 1):
            it = {"fn": "variant", "params": {"p": p, "n": n, "suffix_aware": bool(n % 2)}, "name": "variant %d n=%d" % (p, n), "weight": 8 ** n}
            if n >= 2:
                it["defer_depth"] = 8
            out.append(it)
    return out
