"""URL skeletons with one symbolic hole, shared by the normalize / fingerprint checks (C03-C07)."""
SKELETONS = [
    ("path", "http://www.x.fr/a/", "?k=v"),
    ("path-index", "http://x.fr/a/", "/index.html"),
    ("query-key", "http://x.fr/a?", "=1&b=2"),
    ("query-value", "http://x.fr/a?ref=", "&b=2#top"),
    ("query-escape", "http://x.fr/?%", "=1&B=2"),
    ("query-item", "http://x.fr/?z=1&", "&A=2"),
    ("host-prefix", "https://", ".x.fr/p"),
    ("host-mid", "http://m.x", "y.com/"),
    ("host-suffix", "http://fr.x.co", "/p?hl=1"),
    ("fragment", "http://x.fr/a#", ""),
    ("userinfo", "http://u", "@x.fr/"),
    ("after-scheme", "http://", ""),
    ("port", "http://x.fr:", "/a"),
    ("no-scheme", "", "x.fr/a/"),
    ("redirect", "http://x.fr/r?u=", ""),
    ("path-escape-index", "http://x.fr/a/%", "ndex.html"),
    ("path-escape-amp", "http://x.fr/a/%", "mp/"),
    ("youtube-lang", "https://www.youtube.com/watch?v=abc&", "l=fr"),
    ("no-scheme-port", "x.fr:", "/a?k=v"),
]
LONG = ("path-escape-index", "path-escape-amp", "youtube-lang", "path", "query-key", "query-value", "query-escape", "query-item", "fragment", "redirect")
