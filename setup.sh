#!/bin/sh
# Builds the overlay interpreter used by every check: /venv's python (3.12, the one the
# test-suite runs on) + z3-solver from the offline wheelhouse. Idempotent.
set -e
cd "$(dirname "$0")"
if [ ! -x .venv/bin/python ] || ! .venv/bin/python -c 'import z3, jsonschema' 2>/dev/null; then
  rm -rf .venv
  /venv/bin/python -m venv .venv
  PIP_NO_INDEX=1 .venv/bin/pip install -q --no-index --find-links /opt/veriftools/wheels z3-solver jsonschema
fi
.venv/bin/python -c 'import z3; print("z3", z3.get_version_string())'
